package checks

import (
	"fmt"
	"strings"
	"testing"

	"github.com/datastax/cql-proxy/parser"
	"github.com/datastax/go-cassandra-native-protocol/message"
	"github.com/datastax/go-cassandra-native-protocol/primitive"
	"pgregory.net/rapid"

	"verif/harness/evid"
	"verif/harness/fakecass"
	"verif/harness/protogen"
)

// ---- C09: only USE and genuine system-table SELECTs are answered by the proxy itself ----

var c09SystemTables = map[string]bool{"local": true, "peers": true, "peers_v2": true, "schema_keyspaces": true,
	"schema_columnfamilies": true, "schema_columns": true, "schema_usertypes": true}

type c09Stmt struct {
	CurrentKs string `json:"current_keyspace"` // as the client spelled it in USE ("" = none)
	Qualifier string `json:"qualifier"`        // as spelled in the statement ("" = absent)
	Table     string `json:"table"`            // as spelled
	Kind      string `json:"kind"`             // select | use | insert | update | delete | batch | ddl
	Text      string `json:"text"`
	Token     string `json:"token,omitempty"`
	Comment   string `json:"comment,omitempty"` // where a CQL comment was inserted (comments are whitespace to CQL)
	// model verdict
	Handled bool `json:"handled"`
}

// modelHandled: the documented rule, with CQL identifier semantics.
func modelHandled(kind, current, qualifier, table string) bool {
	if kind == "use" {
		return true
	}
	if kind != "select" {
		return false
	}
	eff := current
	if qualifier != "" {
		eff = qualifier
	}
	return eff != "" && fakecass.CQLIdent(eff) == "system" && c09SystemTables[fakecass.CQLIdent(table)]
}

var (
	c09Currents   = []string{"", "", "system", "SYSTEM", "System", `"system"`, `"System"`, "ks1", `"Ks1"`, "system_auth"}
	c09Qualifiers = []string{"", "", "", "system", "SYSTEM", "sYsTeM", `"system"`, `"System"`, `"SYSTEM"`, "ks1", "system_schema", "system_auth", `"Ks1"`, "systems", "system1"}
	c09Tables     = []string{"local", "peers", "peers_v2", "schema_keyspaces", "schema_columnfamilies", "schema_columns", "schema_usertypes",
		"LOCAL", "Peers", "PEERS_V2", "Schema_Columns", `"local"`, `"peers"`, `"peers_v2"`, `"LOCAL"`, `"Peers"`, `"Local"`,
		"locals", "peer", "peers_v3", "local_", "schema_tables", "size_estimates", "t", "users", `"local "`, "loca", "available_ranges"}
	c09Selectors = []string{"*", "key", "key, rpc_address", "count(*)", "peer, data_center AS dc", "now()", "JSON *", "DISTINCT key", "writetime(key)", "host_id, tokens", "*, key", "a.b", "\"Quoted\", x",
		// selector text the proxy's lexer has no token for: the table decides, not the select clause
		"key % 2", "@key", "é", "key ^ 2, *", "a | b", "key # 1", "~key", "100%",
		// comment markers inside quoted identifiers are part of the identifier
		"key AS \"k--1\"", "key AS \"a/*b\", rpc_address", "\"//x\"", "key AS \"*/\"", "\"--\".\"/*\""}
	c09Tails = []string{"", " LIMIT 10", " ALLOW FILTERING", " ORDER BY k DESC", " LIMIT 1 ALLOW FILTERING", " AND peer = '127.0.0.1'", " AND x IN (1, 2)", " PER PARTITION LIMIT 2"}
)

func c09Gen(rt *rapid.T, withToken bool) c09Stmt {
	s := c09Stmt{CurrentKs: c09Currents[rapid.IntRange(0, len(c09Currents)-1).Draw(rt, "current")],
		Qualifier: c09Qualifiers[rapid.IntRange(0, len(c09Qualifiers)-1).Draw(rt, "qualifier")],
		Table:     c09Tables[rapid.IntRange(0, len(c09Tables)-1).Draw(rt, "table")]}
	if rapid.IntRange(0, 3).Draw(rt, "bias") == 0 { // bias towards the interesting corner
		s.Table = c09Tables[rapid.IntRange(0, 16).Draw(rt, "systable")]
		if rapid.Bool().Draw(rt, "sysq") {
			s.Qualifier = c09Qualifiers[rapid.IntRange(3, 8).Draw(rt, "sysqual")]
		} else {
			s.CurrentKs = c09Currents[rapid.IntRange(2, 6).Draw(rt, "syscur")]
		}
	}
	if withToken {
		s.Token = nextToken()
	}
	tok := s.Token
	if tok == "" {
		tok = "x"
	}
	name := s.Table
	if s.Qualifier != "" {
		sep := rapid.SampledFrom([]string{".", ".", " . ", ". ", " ."}).Draw(rt, "dot")
		name = s.Qualifier + sep + s.Table
	}
	ws := func(label string) string {
		return rapid.SampledFrom([]string{" ", " ", "  ", "\n", "\t", " \r\n "}).Draw(rt, label)
	}
	kw := func(w string) string {
		switch rapid.IntRange(0, 3).Draw(rt, "kwcase") {
		case 0:
			return strings.ToLower(w)
		case 1:
			return strings.ToUpper(w[:1]) + strings.ToLower(w[1:])
		}
		return w
	}
	s.Kind = rapid.SampledFrom([]string{"select", "select", "select", "select", "select", "insert", "update", "delete", "batch", "ddl", "use"}).Draw(rt, "kind")
	switch s.Kind {
	case "select":
		sel := c09Selectors[rapid.IntRange(0, len(c09Selectors)-1).Draw(rt, "selector")]
		cm := func(pos string) string {
			if s.Comment == pos {
				return rapid.SampledFrom([]string{"/* c */", "/* topology\nrefresh */ ", "-- c\n", "// c\n"}).Draw(rt, "commenttext")
			}
			return ""
		}
		if rapid.IntRange(0, 5).Draw(rt, "hascomment") == 0 {
			s.Comment = rapid.SampledFrom([]string{"leading", "selectors", "before-table", "in-qualified-name", "trailing"}).Draw(rt, "commentpos")
			if s.Comment == "in-qualified-name" && s.Qualifier == "" {
				s.Comment = "before-table"
			}
		}
		// comment markers inside a string literal are not comments
		strlit := rapid.SampledFrom([]string{"", "", "", " -- not a comment", " /* not a comment */", "//", " /* ", "''--"}).Draw(rt, "strlit")
		qname := name
		if s.Comment == "in-qualified-name" {
			qname = s.Qualifier + "." + cm("in-qualified-name") + s.Table
		}
		s.Text = cm("leading") + kw("SELECT") + ws("w1") + cm("selectors") + sel + ws("w2") + kw("FROM") + ws("w3") + cm("before-table") + qname + ws("w4") + kw("WHERE") + " key = '" + tok + strlit + "'" + c09Tails[rapid.IntRange(0, len(c09Tails)-1).Draw(rt, "tail")]
		if s.Comment == "trailing" {
			s.Text += " " + rapid.SampledFrom([]string{"/* c */", "-- c", "// c"}).Draw(rt, "trailingcomment")
		}
	case "insert":
		s.Text = kw("INSERT") + " INTO " + name + " (key, v) VALUES ('" + tok + "', 1)"
	case "update":
		s.Text = kw("UPDATE") + " " + name + " SET v = 1 WHERE key = '" + tok + "'"
	case "delete":
		s.Text = kw("DELETE") + " FROM " + name + " WHERE key = '" + tok + "'"
	case "batch":
		s.Text = "BEGIN BATCH INSERT INTO " + name + " (key) VALUES ('" + tok + "') APPLY BATCH"
	case "ddl":
		s.Text = rapid.SampledFrom([]string{"CREATE TABLE %s_%s (key text PRIMARY KEY)", "DROP TABLE %s /* %s */", "ALTER TABLE %s ADD c%s int", "TRUNCATE %s /* %s */"}).Draw(rt, "ddl")
		s.Text = fmt.Sprintf(s.Text, name, tok)
	case "use":
		s.Text = kw("USE") + ws("w1") + rapid.SampledFrom([]string{"ks1", "system", `"Ks1"`, "KS1"}).Draw(rt, "useks")
	}
	term := rapid.IntRange(0, 5).Draw(rt, "terminator")
	if s.Comment == "trailing" {
		term = 5
	}
	switch term {
	case 0:
		s.Text += ";"
	case 1:
		s.Text += " ;\n"
	case 2:
		s.Text = " " + s.Text
	}
	s.Handled = modelHandled(s.Kind, s.CurrentKs, s.Qualifier, s.Table)
	return s
}

func c09Class(s c09Stmt) string {
	cur, q, tb := "none", "absent", "user-table"
	if s.CurrentKs != "" {
		cur = map[bool]string{true: "system", false: "user"}[fakecass.CQLIdent(s.CurrentKs) == "system"]
		if strings.HasPrefix(s.CurrentKs, `"`) {
			cur += "-quoted"
		}
	}
	if s.Qualifier != "" {
		q = map[bool]string{true: "system", false: "other"}[fakecass.CQLIdent(s.Qualifier) == "system"]
		if strings.HasPrefix(s.Qualifier, `"`) {
			q += "-quoted"
		}
	}
	if c09SystemTables[fakecass.CQLIdent(s.Table)] {
		tb = "system-table"
		if s.Table != strings.ToLower(s.Table) || strings.HasPrefix(s.Table, `"`) {
			tb += "-variant"
		}
	} else if c09SystemTables[strings.ToLower(strings.Trim(s.Table, `" _s123`))] {
		tb = "look-alike"
	}
	return fmt.Sprintf("cur=%s/qual=%s/table=%s/%s", cur, q, tb, s.Kind)
}

func c09ParserCheck(s c09Stmt) *evid.Fail {
	handled, _, _ := parser.IsQueryHandled(parser.IdentifierFromString(s.CurrentKs), s.Text)
	if handled != s.Handled {
		sig := "forwards-system-read"
		if handled {
			sig = "intercepts-user-statement"
		}
		if s.Comment != "" && !handled {
			return evid.Failf("forwards-system-read:comment-"+s.Comment, "IsQueryHandled(current keyspace %q, %q) = false: a CQL comment (%s) makes a read of a virtualised system table look like a user statement", s.CurrentKs, s.Text, s.Comment)
		}
		return evid.Failf(sig+":"+c09Class(s), "IsQueryHandled(current keyspace %q, %q) = %v, the documented rule says %v", s.CurrentKs, s.Text, handled, s.Handled)
	}
	return nil
}

// end to end: the current keyspace is established by a real USE (or the PREPARE keyspace field)
type c09E2E struct {
	Version int       `json:"version"`
	Stmts   []c09Stmt `json:"statements"`
	Prepare []bool    `json:"as_prepare"`                  // send statement i as PREPARE (+EXECUTE) instead of QUERY
	PrepKs  []bool    `json:"prepare_field"`               // v5/DSEv2: put the current keyspace into the PREPARE keyspace field instead of USE
	FailUse []bool    `json:"failed_use_before,omitempty"` // a USE that the backend rejects is sent just before statement i
	NoSysKs bool      `json:"backend_without_system_keyspace,omitempty"`
}

func c09E2ECheck(c c09E2E) *evid.Fail {
	v := primitive.ProtocolVersion(c.Version)
	e, err := startEnv(envOpts{Hosts: 1, NumConns: 1, Version: primitive.ProtocolVersion4, MaxVersion: primitive.ProtocolVersionDse2, Keyspaces: []string{"ks1", "Ks1", "System", "system_auth"}})
	if err != nil {
		return evid.Failf("harness-env", "%v", err)
	}
	defer e.Close()
	if c.NoSysKs {
		e.Cluster.SetKeyspace("system", false) // "USE system" now fails at the backend
	}
	cur := "\x00"
	var r *runner
	for i, s := range c.Stmts {
		if c.NoSysKs && s.CurrentKs != "" && fakecass.CQLIdent(s.CurrentKs) == "system" {
			continue // cannot be set up on this backend
		}
		usePrepField := c.Prepare[i] && c.PrepKs[i] && v.SupportsPrepareFlags() && s.CurrentKs != ""
		want := s.CurrentKs
		if usePrepField {
			want = "" // the connection itself has no keyspace; the PREPARE names one
		}
		if want != cur {
			// a fresh client connection in the wanted keyspace
			if r, err = newRunner(e, v, ""); err != nil {
				return evid.Failf("harness-client", "%v", err)
			}
			if want != "" {
				st := r.nextStream()
				from := r.c.NumFrames()
				_ = r.c.SendMsg(v, st, &message.Query{Query: "USE " + want, Options: &message.QueryOptions{Consistency: primitive.ConsistencyLevelOne}}, false)
				rp := r.c.WaitStream(st, from, 1, posWait)
				if rp == nil {
					return evid.Failf("no-reply:use", "no reply to USE %s", want)
				}
				if b, err := r.c.Decode(rp); err != nil || b.Message.GetOpCode() != primitive.OpCodeResult {
					return evid.Failf("harness-use", "USE %s failed: %v %v", want, b, err)
				}
			}
			cur = want
		}
		if i < len(c.FailUse) && c.FailUse[i] && s.Kind != "use" {
			// a rejected USE must leave the keyspace (and therefore the routing decision) untouched
			target := fmt.Sprintf("no_such_keyspace_%d", i)
			if c.NoSysKs {
				target = "system"
			}
			st := r.nextStream()
			from := r.c.NumFrames()
			_ = r.c.SendMsg(v, st, &message.Query{Query: "USE " + target, Options: &message.QueryOptions{Consistency: primitive.ConsistencyLevelOne}}, false)
			rp := r.c.WaitStream(st, from, 1, posWait)
			if rp == nil {
				return evid.Failf("no-reply:use", "no reply to USE %s", target)
			}
			if b, err := r.c.Decode(rp); err != nil || b.Message.GetOpCode() != primitive.OpCodeError {
				return evid.Failf("failed-use-accepted", "USE %s, which the backend rejects, was answered with %v %v", target, b, err)
			}
		}
		st := r.nextStream()
		from := r.c.NumFrames()
		what := fmt.Sprintf("%q with current keyspace %q (%s)", s.Text, s.CurrentKs, c09Class(s))
		if i < len(c.FailUse) && c.FailUse[i] {
			what += " after a rejected USE"
		}
		var rp interface{ String() string }
		_ = rp
		stallReset()
		if c.Prepare[i] {
			p := &message.Prepare{Query: s.Text}
			if usePrepField {
				p.Keyspace = s.CurrentKs
			}
			_ = r.c.SendMsg(v, st, p, false)
		} else {
			_ = r.c.SendMsg(v, st, &message.Query{Query: s.Text, Options: &message.QueryOptions{Consistency: primitive.ConsistencyLevelOne}}, false)
		}
		rc := r.c.WaitStream(st, from, 1, posWait)
		if rc == nil {
			if stalled(posWait) {
				return evid.Failf("harness-stall", "stalled")
			}
			return evid.Failf("no-reply", "no reply to %s", what)
		}
		b, err := r.c.Decode(rc)
		if err != nil {
			return evid.Failf("undecodable", "%v", err)
		}
		atBackend := len(e.Cluster.Attempts(s.Token)) > 0
		mode := map[bool]string{true: "PREPARE", false: "QUERY"}[c.Prepare[i]]
		if s.Kind == "use" {
			// USE is answered by the proxy (the backend only sees the USEs of the pooled connections, untokenised)
			if c.Prepare[i] {
				if _, ok := b.Message.(*message.PreparedResult); !ok {
					return evid.Failf("use-prepare-reply", "PREPARE of %s answered with %v", what, b.Message)
				}
			}
			cur = "\x00" // the keyspace may have changed; reconnect for the next statement
			continue
		}
		if s.Handled {
			if atBackend && s.Comment != "" {
				return evid.Failf("forwards-system-read:comment-"+s.Comment, "%s of %s reached the backend: a CQL comment (%s) defeats the interception of system-table reads", mode, what, s.Comment)
			}
			if atBackend {
				return evid.Failf("system-read-forwarded:"+c09Class(s), "%s of %s reached the backend (the real topology would be exposed)", mode, what)
			}
			if ei, ok := parseEcho(b.Message); ok {
				return evid.Failf("system-read-forwarded:"+c09Class(s), "%s of %s was answered by the backend: %+v", mode, what, ei)
			}
			if c.Prepare[i] {
				if pr, ok := b.Message.(*message.PreparedResult); ok {
					// executing the returned id must also stay local
					st2 := r.nextStream()
					from2 := r.c.NumFrames()
					ex := &message.Execute{QueryId: pr.PreparedQueryId, Options: &message.QueryOptions{Consistency: primitive.ConsistencyLevelOne}}
					if v.SupportsResultMetadataId() {
						ex.ResultMetadataId = []byte{1}
					}
					_ = r.c.SendMsg(v, st2, ex, false)
					rc2 := r.c.WaitStream(st2, from2, 1, posWait)
					if rc2 == nil {
						return evid.Failf("no-reply:execute", "no reply to EXECUTE of the locally prepared %s", what)
					}
					b2, _ := r.c.Decode(rc2)
					if b2 != nil {
						if _, isErr := b2.Message.(*message.Unprepared); isErr {
							return evid.Failf("intercepted-execute-forwarded", "EXECUTE of the id the proxy returned for %s was forwarded (backend says UNPREPARED)", what)
						}
					}
				}
			}
		} else {
			if !atBackend {
				return evid.Failf("user-statement-intercepted:"+c09Class(s), "%s of %s never reached the backend; the proxy answered %v", mode, what, b.Message)
			}
			if !c.Prepare[i] {
				if ei, ok := parseEcho(b.Message); !ok || ei.Tok != s.Token {
					return evid.Failf("user-statement-reply", "%s was forwarded but the client received %v", what, b.Message)
				}
			}
		}
	}
	return nil
}

// sameText: one connection prepares the same unqualified text first with current keyspace system (answered by the
// proxy) and then with a user keyspace (forwarded); the backend derives prepared ids from the text alone. The EXECUTE
// of the second id is a user statement and must be forwarded.
type c09SameText struct {
	Version int    `json:"version"`
	Table   string `json:"table"`
	UserKs  string `json:"user_keyspace"`
}

func c09SameTextCheck(c c09SameText) *evid.Fail {
	e, err := startEnv(envOpts{Hosts: 1, NumConns: 1, Version: primitive.ProtocolVersion4, MaxVersion: primitive.ProtocolVersionDse2, Keyspaces: []string{"ks1", "ks2"}})
	if err != nil {
		return evid.Failf("harness-env", "%v", err)
	}
	defer e.Close()
	e.Cluster.TextOnlyIDs = true
	v := primitive.ProtocolVersion(c.Version)
	cl, err := e.client(v, "")
	if err != nil {
		return evid.Failf("harness-client", "%v", err)
	}
	stream := int16(10)
	do := func(msg message.Message) (message.Message, *evid.Fail) {
		stream++
		from := cl.NumFrames()
		if err := cl.SendMsg(v, stream, msg, false); err != nil {
			return nil, evid.Failf("harness-send", "%v", err)
		}
		rp := cl.WaitStream(stream, from, 1, posWait)
		if rp == nil {
			return nil, evid.Failf("no-reply", "no reply to %v", msg)
		}
		b, err := cl.Decode(rp)
		if err != nil {
			return nil, evid.Failf("undecodable", "%v", err)
		}
		return b.Message, nil
	}
	opts := &message.QueryOptions{Consistency: primitive.ConsistencyLevelOne}
	text := "SELECT * FROM " + c.Table
	if m, f := do(&message.Query{Query: "USE system", Options: opts}); f != nil {
		return f
	} else if _, ok := m.(*message.SetKeyspaceResult); !ok {
		return evid.Failf("harness-use", "USE system answered with %v", m)
	}
	m1, f := do(&message.Prepare{Query: text})
	if f != nil {
		return f
	}
	p1, ok := m1.(*message.PreparedResult)
	if !ok {
		return evid.Failf("system-prepare-failed", "PREPARE of %q with current keyspace system answered with %v", text, m1)
	}
	if m, f := do(&message.Query{Query: "USE " + c.UserKs, Options: opts}); f != nil {
		return f
	} else if _, ok := m.(*message.SetKeyspaceResult); !ok {
		return evid.Failf("harness-use", "USE %s answered with %v", c.UserKs, m)
	}
	m2, f := do(&message.Prepare{Query: text})
	if f != nil {
		return f
	}
	p2, ok := m2.(*message.PreparedResult)
	if !ok {
		return evid.Failf("user-prepare-failed", "PREPARE of %q with current keyspace %s answered with %v", text, c.UserKs, m2)
	}
	tok := nextToken()
	ex := &message.Execute{QueryId: p2.PreparedQueryId, Options: &message.QueryOptions{Consistency: primitive.ConsistencyLevelOne, PositionalValues: []*primitive.Value{primitive.NewValue([]byte(tok))}}}
	if v.SupportsResultMetadataId() {
		ex.ResultMetadataId = p2.ResultMetadataId
	}
	m3, f := do(ex)
	if f != nil {
		return f
	}
	if len(e.Cluster.Attempts(tok)) == 0 {
		return evid.Failf("user-statement-intercepted:same-text-after-system-keyspace", "EXECUTE of %q prepared in keyspace %s (id %x; the same text prepared earlier with current keyspace system got id %x) never reached the backend; the client got %v", text, c.UserKs, p2.PreparedQueryId, p1.PreparedQueryId, m3)
	}
	return nil
}

func TestC09(t *testing.T) {
	rec := evid.New("C09", "exploration",
		"statements generated from the product of current keyspace {none, system in any case, quoted system, quoted \"System\", user, quoted user} x qualifier {absent, system in any case/quoted, other, look-alikes} x table {the 7 virtualised tables in lower/upper/mixed case and quoted, look-alikes, user tables} x shape {SELECT with selector lists / JSON / DISTINCT / tails / terminators, USE, INSERT/UPDATE/DELETE/BATCH/DDL that mention the table}, keyword case and whitespace varied; "+
			"(a) parser.IsQueryHandled against the documented rule with CQL identifier semantics; (b) end to end as QUERY and as PREPARE(+EXECUTE) with the keyspace set by a real USE or by the v5/DSEv2 PREPARE keyspace field: handled <=> the token never reaches a backend; "+
			"non-trivial = the naive rule 'table name looks like a system table' disagrees with the model, or case/quoting matters; distinct by (class, text)")
	defer finish(t, rec)
	rec.SetJournalAll(true)
	rec.Assume("CQL identifier rule: unquoted names fold to lower case, quoted names are exact", "whether a handled statement is answered with rows or INVALID is C10's business")

	classify := func(s c09Stmt) string {
		naive := c09SystemTables[strings.ToLower(strings.Trim(s.Table, `"`))] && s.Kind == "select"
		if naive != s.Handled || s.Table != strings.ToLower(s.Table) || strings.Contains(s.CurrentKs+s.Qualifier, `"`) || s.CurrentKs != strings.ToLower(s.CurrentKs) || s.Qualifier != strings.ToLower(s.Qualifier) {
			return c09Class(s) + "|" + s.Text
		}
		return ""
	}
	runProp(t, rec, "parser", perShard(evid.Pick(100000, 4000000)), func(rt *rapid.T) c09Stmt {
		s := c09Gen(rt, false)
		rec.Case(classify(s), c09Class(s), fmt.Sprintf("handled:%v", s.Handled))
		if rec.Evals()%1000 == 1 {
			rec.Sample(s)
		}
		return s
	}, c09ParserCheck)

	runEnum(t, rec, "same-text", func(yield func(c09SameText) bool) {
		shard, shards := evid.Shard()
		i := 0
		for _, v := range []int{3, 4, 5, 65, 66} {
			for _, tb := range []string{"local", "peers"} {
				for _, ks := range []string{"ks1", "ks2"} {
					i++
					if i%shards != shard {
						continue
					}
					c := c09SameText{Version: v, Table: tb, UserKs: ks}
					rec.Case("sametext:"+js(c), "same-text-two-keyspaces")
					if !yield(c) {
						return
					}
				}
			}
		}
	}, c09SameTextCheck)

	runProp(t, rec, "e2e", perShard(evid.Pick(4000, 80000)), func(rt *rapid.T) c09E2E {
		c := c09E2E{Version: int(protogen.Version(rt)), NoSysKs: rapid.IntRange(0, 2).Draw(rt, "nosysks") == 0}
		n := rapid.IntRange(1, 8).Draw(rt, "nstmts")
		for i := 0; i < n; i++ {
			s := c09Gen(rt, true)
			c.Stmts = append(c.Stmts, s)
			c.Prepare = append(c.Prepare, rapid.Bool().Draw(rt, "asprepare"))
			c.PrepKs = append(c.PrepKs, rapid.Bool().Draw(rt, "prepks"))
			c.FailUse = append(c.FailUse, rapid.IntRange(0, 3).Draw(rt, "failuse") == 0)
			if c.FailUse[i] {
				rec.Label("e2e:after-rejected-use")
			}
			rec.Label("e2e:"+c09Class(s), map[bool]string{true: "e2e:PREPARE", false: "e2e:QUERY"}[c.Prepare[i]])
		}
		key := ""
		for _, s := range c.Stmts {
			if k := classify(s); k != "" {
				key += k + ";"
			}
		}
		rec.Case(key, "e2e:"+protogen.VersionName(primitive.ProtocolVersion(c.Version)))
		if n <= 2 {
			rec.Sample(c)
		}
		return c
	}, c09E2ECheck)
}
