package checks

import (
	"bufio"
	"bytes"
	"crypto/ecdsa"
	"crypto/elliptic"
	crand "crypto/rand"
	"crypto/tls"
	"crypto/x509"
	"crypto/x509/pkix"
	"encoding/binary"
	"encoding/hex"
	"encoding/pem"
	"errors"
	"fmt"
	"math/big"
	"net"
	"os"
	"os/exec"
	"path/filepath"
	"strconv"
	"strings"
	"sync"
	"syscall"
	"testing"
	"time"

	"github.com/datastax/go-cassandra-native-protocol/datatype"
	"github.com/datastax/go-cassandra-native-protocol/frame"
	"github.com/datastax/go-cassandra-native-protocol/message"
	"github.com/datastax/go-cassandra-native-protocol/primitive"
	"pgregory.net/rapid"

	"verif/harness/evid"
	"verif/harness/fakecass"
	"verif/harness/protogen"
	"verif/harness/rawcli"
	"verif/harness/wire"
)

// ---- C17: hostile or malformed peers cannot crash or wedge the proxy ----

// victim is a proxy running as a child process (the real binary, or proxyhost with fast
// timers) in front of a fake cluster, plus a well-behaved canary client.
type victim struct {
	cl       *fakecass.Cluster
	cmd      *exec.Cmd
	out      *syncBuf
	done     chan struct{}
	addr     string
	canary   *rawcli.Client
	canaryID []byte
	stream   int16
	maxV     int
	hosts    int
	conns    int
	kind     string
	born     time.Time
	tls      *tls.Config // non-nil: the victim's listener speaks TLS (--proxy-cert-file / --proxy-key-file)
}

// dial opens a well-behaved client connection the way the victim's listener expects it.
func (v *victim) dial() (*rawcli.Client, error) {
	if v.tls != nil {
		return rawcli.DialTLS(v.addr, v.tls)
	}
	return rawcli.Dial(v.addr)
}

// c17ServerCert writes a self-signed certificate and key for 127.0.0.1 and returns their paths.
func c17ServerCert() (certFile, keyFile string, err error) {
	key, err := ecdsa.GenerateKey(elliptic.P256(), crand.Reader)
	if err != nil {
		return "", "", err
	}
	tmpl := &x509.Certificate{SerialNumber: big.NewInt(17), Subject: pkix.Name{CommonName: "cql-proxy under test"}, NotBefore: time.Now().Add(-time.Hour), NotAfter: time.Now().Add(24 * time.Hour),
		KeyUsage: x509.KeyUsageDigitalSignature, ExtKeyUsage: []x509.ExtKeyUsage{x509.ExtKeyUsageServerAuth}, IPAddresses: []net.IP{net.ParseIP("127.0.0.1")}, DNSNames: []string{"localhost"}}
	der, err := x509.CreateCertificate(crand.Reader, tmpl, tmpl, &key.PublicKey, key)
	if err != nil {
		return "", "", err
	}
	kb, err := x509.MarshalPKCS8PrivateKey(key)
	if err != nil {
		return "", "", err
	}
	dir := os.Getenv("VERIF_OUTDIR")
	if dir == "" {
		dir = os.TempDir()
	}
	shard, _ := evid.Shard()
	certFile, keyFile = filepath.Join(dir, fmt.Sprintf("tls-%d-cert.pem", shard)), filepath.Join(dir, fmt.Sprintf("tls-%d-key.pem", shard))
	if err = os.WriteFile(certFile, pem.EncodeToMemory(&pem.Block{Type: "CERTIFICATE", Bytes: der}), 0o600); err != nil {
		return "", "", err
	}
	err = os.WriteFile(keyFile, pem.EncodeToMemory(&pem.Block{Type: "PRIVATE KEY", Bytes: kb}), 0o600)
	return certFile, keyFile, err
}

func (v *victim) alive() bool {
	select {
	case <-v.done:
		return false
	default:
		return true
	}
}

func (v *victim) stop() {
	if v.canary != nil {
		v.canary.Close()
	}
	if v.alive() {
		_ = v.cmd.Process.Kill()
		<-v.done
	}
	v.cl.Close()
	v.out.Close()
}

// goroutines makes the child dump its goroutines (SIGQUIT) and returns the cql-proxy related ones.
func (v *victim) goroutines() string {
	if !v.alive() {
		return v.output()
	}
	_ = v.cmd.Process.Signal(syscall.SIGQUIT)
	select {
	case <-v.done:
	case <-time.After(3 * time.Second):
	}
	var out []string
	for _, blk := range strings.Split(v.out.String(), "\n\n") {
		if strings.Contains(blk, "datastax/cql-proxy") && !strings.Contains(blk, "IO wait") && !strings.Contains(blk, "(*Conn).write") {
			out = append(out, blk)
		}
	}
	s := strings.Join(out, "\n\n")
	if len(s) > 7000 {
		s = s[:7000]
	}
	return "goroutines of the proxy process:\n" + s
}

func (v *victim) output() string {
	s := v.out.String()
	if i := strings.Index(s, "panic:"); i >= 0 {
		s = s[i:]
	} else if i := strings.Index(s, "fatal error:"); i >= 0 {
		s = s[i:]
	}
	if len(s) > 3000 {
		s = s[:3000] + "..."
	}
	return s
}

// startVictim starts the child; realBinary selects cql-proxy (default timers) or proxyhost.
func startVictim(realBinary bool, maxV, hosts, conns int, useTLS bool) (*victim, error) {
	cl, err := fakecass.New(hosts)
	if err != nil {
		return nil, err
	}
	cl.MaxVersion = primitive.ProtocolVersionDse2
	cl.Keyspaces["ks1"] = true
	v := &victim{cl: cl, out: newSyncBuf(), done: make(chan struct{}), maxV: maxV, hosts: hosts, conns: conns, stream: 10}
	started := false
	defer func() {
		if !started {
			v.out.Close()
		}
	}()
	ctl := 4
	if maxV < ctl {
		ctl = maxV
	}
	if realBinary {
		v.kind = "cql-proxy"
		bin := os.Getenv("VERIF_BIN")
		if bin == "" {
			cl.Close()
			return nil, fmt.Errorf("VERIF_BIN not set")
		}
		args := []string{"--bind", "127.0.0.1:0", "--contact-points", cl.HostIP(0), "--port", fmt.Sprint(cl.Port), "--num-conns", fmt.Sprint(conns),
			"--protocol-version", protogen.VersionName(primitive.ProtocolVersion(ctl)), "--max-protocol-version", protogen.VersionName(primitive.ProtocolVersion(maxV))}
		if useTLS {
			certFile, keyFile, err := c17ServerCert()
			if err != nil {
				cl.Close()
				return nil, err
			}
			args = append(args, "--proxy-cert-file", certFile, "--proxy-key-file", keyFile)
			v.tls = &tls.Config{InsecureSkipVerify: true}
		}
		v.cmd = exec.Command(bin, args...)
		v.cmd.SysProcAttr = &syscall.SysProcAttr{Pdeathsig: syscall.SIGKILL} // never outlive the test process
		v.cmd.Env = []string{"PATH=/usr/bin:/bin", "HOME=/tmp"}
		v.cmd.Stdout, v.cmd.Stderr = v.out.File(), v.out.File()
		if err := startChild(v.cmd); err != nil {
			cl.Close()
			return nil, err
		}
		early := make(chan struct{})
		go func() { _ = v.cmd.Wait(); close(early); close(v.done) }()
		exited := func() bool {
			select {
			case <-early:
				return true
			default:
				return false
			}
		}
		if v.addr = listenAddr(v.out, exited, 10*time.Second); v.addr == "" {
			if !exited() {
				_ = v.cmd.Process.Kill()
			}
			cl.Close()
			return nil, fmt.Errorf("cql-proxy did not start listening: %s", v.out.String())
		}
	} else {
		v.kind = "proxyhost"
		bin := os.Getenv("VERIF_PROXYHOST")
		if bin == "" {
			cl.Close()
			return nil, fmt.Errorf("VERIF_PROXYHOST not set")
		}
		v.cmd = exec.Command(bin, "-contact", cl.HostIP(0), "-port", fmt.Sprint(cl.Port), "-maxversion", fmt.Sprint(maxV), "-version", fmt.Sprint(ctl), "-numconns", fmt.Sprint(conns),
			"-heartbeat", "40ms", "-idle", "1s", "-connecttimeout", "500ms")
		v.cmd.SysProcAttr = &syscall.SysProcAttr{Pdeathsig: syscall.SIGKILL} // never outlive the test process
		v.cmd.Stderr = v.out.File()
		stdout, _ := v.cmd.StdoutPipe()
		if err := startChild(v.cmd); err != nil {
			cl.Close()
			return nil, err
		}
		sc := bufio.NewScanner(stdout)
		got := make(chan string, 1)
		go func() {
			for sc.Scan() {
				if strings.HasPrefix(sc.Text(), "LISTENING ") {
					got <- strings.TrimPrefix(sc.Text(), "LISTENING ")
				}
			}
		}()
		select {
		case v.addr = <-got:
		case <-time.After(10 * time.Second):
			_ = v.cmd.Process.Kill()
			cl.Close()
			return nil, fmt.Errorf("proxyhost did not start: %s", v.out.String())
		}
	}
	if !realBinary {
		go func() { _ = v.cmd.Wait(); close(v.done) }()
	}
	deadline := time.Now().Add(10 * time.Second)
	for {
		if !v.alive() {
			cl.Close()
			return nil, fmt.Errorf("%s exited at start-up: %s", v.kind, v.out.String())
		}
		c, err := v.dial()
		if err == nil {
			if err = c.Startup(primitive.ProtocolVersion(ctl), "", 2*time.Second); err == nil {
				v.canary = c
				break
			}
			c.Close()
		}
		if time.Now().After(deadline) {
			v.stop()
			return nil, fmt.Errorf("%s did not serve: %v", v.kind, err)
		}
		time.Sleep(3 * time.Millisecond)
	}
	// the canary prepares its statement once
	r := &runner{c: v.canary, v: primitive.ProtocolVersion(ctl), stream: 2, prepared: map[string][]byte{}}
	id, err := r.prepare("SELECT * FROM ks1.canary WHERE k = ? AND tag = '" + prepTokenOf(nextToken()) + "'")
	if err != nil {
		v.stop()
		return nil, fmt.Errorf("canary prepare: %v", err)
	}
	v.canaryID = id
	started = true
	return v, nil
}

// canaryCheck: the well-behaved client gets correct answers (system query, forwarded query, prepared execute).
func (v *victim) canaryCheck(what string) *evid.Fail {
	ver := primitive.ProtocolVersion(4)
	if v.maxV < 4 {
		ver = primitive.ProtocolVersion(v.maxV)
	}
	crashed := func() *evid.Fail {
		time.Sleep(20 * time.Millisecond)
		if !v.alive() {
			sig := "process-exit"
			out := v.output()
			switch {
			case strings.Contains(out, "IdentifierFromString"):
				sig = "panic:IdentifierFromString"
			case strings.Contains(out, "not implemented"):
				sig = "panic:not-implemented"
			case strings.Contains(out, "nil pointer"):
				sig = "panic:nil-pointer"
			case strings.Contains(out, "panic:"):
				sig = "panic:other"
			case strings.Contains(out, "fatal error:"):
				sig = "fatal-error"
			}
			return evid.Failf(sig, "the proxy process (%s) died after %s\n%s", v.kind, what, out)
		}
		return nil
	}
	for attempt := 0; ; attempt++ {
		if f := crashed(); f != nil {
			return f
		}
		// 0. the listener still accepts and serves new connections
		// (a TCP connect that merely times out is retried inside rawcli: the kernel drops SYNs on its own under the
		// connection churn of this harness; the proxy can only cause that by not accepting until its backlog is full)
		fc, err := v.dial()
		if err != nil {
			if f := crashed(); f != nil {
				return f
			}
			ssOut, _ := exec.Command("ss", "-ltnH", "sport", "=", ":"+v.addr[strings.LastIndex(v.addr, ":")+1:]).CombinedOutput()
			var te *rawcli.ErrTCPConnect
			if errors.As(err, &te) {
				if fs := strings.Fields(string(ssOut)); len(fs) >= 3 {
					recvQ, _ := strconv.Atoi(fs[1])
					backlog, _ := strconv.Atoi(fs[2])
					if recvQ < backlog {
						// the listener's accept queue is not full: the proxy is accepting, the SYNs were lost below it
						return evid.Failf("harness-stall", "TCP connects to the proxy time out although its accept queue holds %d of %d (kernel TCP stack overloaded by connection churn)", recvQ, backlog)
					}
				}
			}
			return evid.Failf("canary-cannot-connect", "a new client cannot connect after %s: %v\nlistener (ss -ltn): %s\n%s", what, err, strings.TrimSpace(string(ssOut)), v.goroutines())
		} else {
			_, ferr := fc.Fence(ver, posWait)
			fc.Close()
			if ferr != nil {
				if f := crashed(); f != nil {
					return f
				}
				return evid.Failf("canary-unanswered:new-connection", "a new client connection is not served after %s: %v", what, ferr)
			}
		}
		// 1. system query
		v.stream++
		s := v.stream
		from := v.canary.NumFrames()
		_ = v.canary.SendMsg(ver, s, &message.Query{Query: "SELECT key, rpc_address FROM system.local", Options: &message.QueryOptions{Consistency: primitive.ConsistencyLevelOne}}, false)
		stallReset()
		rp := v.canary.WaitStream(s, from, 1, posWait)
		if rp == nil {
			if f := crashed(); f != nil {
				return f
			}
			if stalled(posWait) {
				return evid.Failf("harness-stall", "stalled")
			}
			return evid.Failf("canary-unanswered:system", "a well-behaved client got no answer to a system query within %v after %s (peer closed=%v)", posWait, what, v.canary.PeerClosed())
		}
		if b, err := v.canary.Decode(rp); err != nil || b.Message.GetOpCode() != primitive.OpCodeResult {
			return evid.Failf("canary-wrong:system", "a well-behaved client got %v %v for a system query after %s", b, err, what)
		}
		// 2. forwarded idempotent query and 3. prepared execute
		ok := true
		var last string
		for k := 0; k < 2; k++ {
			tok := nextToken()
			v.stream++
			s := v.stream
			from := v.canary.NumFrames()
			if k == 0 {
				_ = v.canary.SendMsg(ver, s, &message.Query{Query: "SELECT * FROM ks1.canary WHERE k = '" + tok + "'", Options: &message.QueryOptions{Consistency: primitive.ConsistencyLevelOne}}, false)
			} else {
				_ = v.canary.SendMsg(ver, s, &message.Execute{QueryId: v.canaryID, Options: &message.QueryOptions{Consistency: primitive.ConsistencyLevelOne, PositionalValues: []*primitive.Value{primitive.NewValue([]byte(tok))}}}, false)
			}
			rp := v.canary.WaitStream(s, from, 1, posWait)
			if rp == nil {
				if f := crashed(); f != nil {
					return f
				}
				return evid.Failf("canary-unanswered:forwarded", "a well-behaved client got no answer to a forwarded request within %v after %s\n%s", posWait, what, v.goroutines())
			}
			b, err := v.canary.Decode(rp)
			if err != nil {
				return evid.Failf("canary-wrong:forwarded", "undecodable answer: %v", err)
			}
			if ei, isEcho := parseEcho(b.Message); !isEcho || ei.Tok != tok {
				ok = false
				last = fmt.Sprint(b.Message)
			}
		}
		if ok {
			return nil
		}
		// the backend script of this case may have cost the proxy backend connections; they must come back
		if attempt > 200 {
			return evid.Failf("canary-wrong:forwarded", "a well-behaved client keeps getting %s for forwarded requests 4s after %s", last, what)
		}
		time.Sleep(20 * time.Millisecond)
	}
}

// ---- hostile client streams ----

type c17Chunk struct {
	Hex   string `json:"hex"`
	Note  string `json:"note,omitempty"`
	Pause int    `json:"pause_ms,omitempty"`
	// Tok/Script: the chunk is a well-formed request carrying this token, and the backend answers it as scripted
	Tok    string             `json:"token,omitempty"`
	Script []fakecass.Outcome `json:"script,omitempty"`
}

type c17Client struct {
	MaxVersion int        `json:"max_version"`
	Startup    string     `json:"startup_compression,omitempty"` // "-" = no STARTUP at all
	Chunks     []c17Chunk `json:"chunks"`
	End        string     `json:"end"` // close | halfclose | linger
	Real       bool       `json:"real_binary"`
	// TLS: "" = plain listener; "inner" = the listener speaks TLS and the hostile frames travel inside a proper TLS
	// session; "raw" = the listener speaks TLS and the chunks are written to the bare TCP connection (a peer that
	// never completes, or garbles, the TLS handshake)
	TLS string `json:"tls,omitempty"`
	// Flood > 0: after the chunks the client pipelines that many valid forwarded queries without ever reading an
	// answer (the proxy's write queue towards it fills up) and then disappears
	Flood int `json:"flood,omitempty"`
}

var (
	victimMu sync.Mutex
	victims  = map[string]*victim{}
)

func getVictim(real bool, maxV, hosts, conns int, useTLS bool) (*victim, error) {
	key := fmt.Sprintf("%v/%d/%d/%d/%v", real, maxV, hosts, conns, useTLS)
	victimMu.Lock()
	defer victimMu.Unlock()
	if v, ok := victims[key]; ok && v.alive() && !v.canary.PeerClosed() {
		return v, nil
	} else if ok {
		v.stop()
		delete(victims, key)
	}
	// every live victim costs the machine a process with millisecond timers and a fake cluster: keep few
	for len(victims) >= 6 {
		oldest := ""
		for k, x := range victims {
			if oldest == "" || x.born.Before(victims[oldest].born) {
				oldest = k
			}
		}
		victims[oldest].stop()
		delete(victims, oldest)
	}
	v, err := startVictim(real, maxV, hosts, conns, useTLS)
	if err != nil {
		return nil, err
	}
	v.born = time.Now()
	victims[key] = v
	return v, nil
}

func stopVictims() {
	victimMu.Lock()
	defer victimMu.Unlock()
	for k, v := range victims {
		v.stop()
		delete(victims, k)
	}
}

func dropVictim(v *victim) {
	victimMu.Lock()
	defer victimMu.Unlock()
	for k, x := range victims {
		if x == v {
			delete(victims, k)
		}
	}
	v.stop()
}

func c17ClientCheck(c c17Client) *evid.Fail {
	v, err := getVictim(c.Real || c.TLS != "", c.MaxVersion, 1, 1, c.TLS != "")
	if err != nil {
		return evid.Failf("harness-victim", "%v", err)
	}
	var cl *rawcli.Client
	if c.TLS == "raw" {
		cl, err = rawcli.Dial(v.addr)
	} else {
		cl, err = v.dial()
	}
	if err != nil {
		if c.TLS != "" {
			// a previous case may have wedged the listener: let the canary decide
			if f := v.canaryCheck("a previous client"); f != nil {
				dropVictim(v)
				return f
			}
		}
		return evid.Failf("harness-client", "%v", err)
	}
	defer cl.Close()
	if c.Startup != "-" && c.TLS != "raw" {
		ver := primitive.ProtocolVersion(4)
		if c.MaxVersion < 4 {
			ver = 3
		}
		if err := cl.Startup(ver, c.Startup, posWait); err != nil {
			return evid.Failf("harness-startup", "%v", err)
		}
	}
	var notes []string
	for _, ch := range c.Chunks {
		b, _ := hex.DecodeString(ch.Hex)
		if ch.Tok != "" {
			v.cl.ScriptForced(ch.Tok, ch.Script)
		}
		_ = cl.Send(b) // the proxy may already have closed the connection
		notes = append(notes, ch.Note)
		if ch.Pause > 0 {
			time.Sleep(time.Duration(ch.Pause) * time.Millisecond)
		}
	}
	if c.Flood > 0 && c.TLS != "raw" {
		ver := primitive.ProtocolVersion(4)
		if c.MaxVersion < 4 {
			ver = 3
		}
		cl.PauseReads()
		v.cl.SetEchoPad(32 << 10) // big answers: the socket buffers and the proxy's 1024-entry write queue overflow
		defer v.cl.SetEchoPad(0)
		var buf []byte
		for i := 0; i < c.Flood; i++ {
			f, err := wire.Msg(ver, false, int16(i%30000), &message.Query{Query: "SELECT * FROM ks1.flood WHERE k = '" + nextToken() + "' AND pad = '" + strings.Repeat("p", 200) + "'", Options: &message.QueryOptions{Consistency: primitive.ConsistencyLevelOne}}, "")
			if err != nil {
				break
			}
			buf = append(buf, f.Bytes()...)
			if len(buf) > 1<<20 {
				_ = cl.Send(buf)
				buf = buf[:0]
			}
		}
		_ = cl.Send(buf)
		time.Sleep(150 * time.Millisecond) // let the answers pile up behind the socket that nobody reads
		v.cl.SetEchoPad(0)
		notes = append(notes, fmt.Sprintf("%d pipelined queries whose answers are never read", c.Flood))
		cl.Close()
		cl.ResumeReads()
	}
	switch c.End {
	case "close":
		cl.Close()
	case "halfclose":
		cl.HalfClose()
	}
	tlsNote := map[string]string{"": "", "inner": " inside a TLS session", "raw": " on the bare TCP connection of the TLS listener"}[c.TLS]
	f := v.canaryCheck(fmt.Sprintf("a client sent [%s]%s (startup %q, then %s)", strings.Join(notes, "; "), tlsNote, c.Startup, c.End))
	if f != nil && (strings.HasPrefix(f.Sig, "panic") || strings.HasPrefix(f.Sig, "process") || strings.HasPrefix(f.Sig, "fatal") || strings.HasPrefix(f.Sig, "canary")) {
		dropVictim(v)
	}
	return f
}

var c17Hostile = []string{"SELECT * FROM t /* c */ WHERE a = $$", "-- $$", "/* */ $$", "// x\n$$", "/*", "$$", "SELECT * FROM system.local -- $$ x $$", `"`, `""`, `"a`, `'`, `''`, "\x00", "\xff\xfe", "a\"b", `"""`, " ", "", "system", `"system"`, "sys\x00tem", strings.Repeat("x", 70000), strings.Repeat(`"`, 300),
	"SELECT * FROM system.local", "SELECT count() FROM system.local", "SELECT count( FROM system.peers", "SELECT now(x) FROM system.local", "SELECT * FROM system.", "SELECT FROM", "SELECT key AS FROM system.local",
	"SELECT count(*) AS FROM system.peers", "SELECT , FROM system.local", "SELECT a.b.c FROM system.local", "USE", "USE ;", "SELECT * FROM system.local WHERE", "; DROP",
	"INSERT INTO ks1.t (a) VALUES (" + strings.Repeat("[", 3<<20), "UPDATE ks1.t SET a = " + strings.Repeat("{", 2<<20), "DELETE FROM ks1.t WHERE a = " + strings.Repeat("(", 3<<20), "INSERT INTO ks1.t (a) VALUES (" + strings.Repeat("f(", 1<<20), "\n", "\"\x00\"", "é", strings.Repeat("(", 5000), strings.Repeat("[", 5000), "USE \"", "`", "$$", "-", "0x"}

// fragments that open something a scanner has to close (comments, string and identifier quotes, $$ strings)
var c17Fragments = []string{"/*", "*/", "--", "//", "$$", "$", "'", "''", "\"", "\n", "\r", " ", ";", "SELECT", "* FROM system.local", "FROM t", "WHERE a =", "x", "é", "\x00", "(", "{", "["}

// select clauses the proxy has to evaluate itself when the table is one of its own
var c17Selectors = []string{"count()", "count(", "count(1, 2)", "count(1)", "count(key", "count ( )", "COUNT()", "now(x)", "now(", "", ",", ", ,", "key AS", "key AS AS", "a.b.c", "count(*) AS", "writetime()", "*, ", "(", ")", "key,", "count(*), count()", "JSON", "DISTINCT", "key AS \"\"", "\"", "token()", "ttl(", "cast(key AS", "-", "1", "'x'", "?", "system.now()"}

func hostile(rt *rapid.T, label string) string {
	switch rapid.IntRange(0, 3).Draw(rt, label+"-kind") {
	case 1:
		sel := c17Selectors[rapid.IntRange(0, len(c17Selectors)-1).Draw(rt, label+"-sel")]
		tbl := rapid.SampledFrom([]string{"system.local", "system.peers", "system.peers_v2", "system.", "local", "system.schema_keyspaces", "\"system\".\"local\""}).Draw(rt, label+"-tbl")
		tail := rapid.SampledFrom([]string{"", "", " WHERE", " WHERE key = 'x'", " LIMIT", ";", " ALLOW"}).Draw(rt, label+"-seltail")
		return "SELECT " + sel + " FROM " + tbl + tail
	case 0:
		n := rapid.IntRange(1, 8).Draw(rt, label+"-n")
		var sb strings.Builder
		for i := 0; i < n; i++ {
			sb.WriteString(c17Fragments[rapid.IntRange(0, len(c17Fragments)-1).Draw(rt, label+"-frag")])
			if rapid.Bool().Draw(rt, label+"-sp") {
				sb.WriteString(" ")
			}
		}
		out := strings.TrimRight(sb.String(), " ")
		switch rapid.IntRange(0, 5).Draw(rt, label+"-tail") {
		case 0:
			out = "/* c */ " + out + " $$" // an opening $$ as the very last bytes, behind a comment
		case 1:
			out = out + " -- " + "$$"
		case 2:
			out = "$$" + out
		}
		return out
	}
	return c17Hostile[rapid.IntRange(0, len(c17Hostile)-1).Draw(rt, label)]
}

func c17RawStringList(ss []string) []byte {
	var b bytes.Buffer
	_ = binary.Write(&b, binary.BigEndian, uint16(len(ss)))
	for _, s := range ss {
		_ = binary.Write(&b, binary.BigEndian, uint16(len(s)))
		b.WriteString(s)
	}
	return b.Bytes()
}

func c17GenClient(rt *rapid.T) c17Client {
	c := c17Client{MaxVersion: int(protogen.Version(rt)), Real: rapid.Bool().Draw(rt, "real"), End: rapid.SampledFrom([]string{"close", "close", "halfclose", "linger"}).Draw(rt, "end")}
	c.Startup = rapid.SampledFrom([]string{"", "", "lz4", "snappy", "-"}).Draw(rt, "startup")
	var accepted []primitive.ProtocolVersion
	for _, x := range protogen.Versions {
		if int(x) <= c.MaxVersion {
			accepted = append(accepted, x)
		}
	}
	n := rapid.IntRange(1, 4).Draw(rt, "nchunks")
	for i := 0; i < n; i++ {
		v := accepted[rapid.IntRange(0, len(accepted)-1).Draw(rt, "v")]
		stream := int16(rapid.IntRange(-2, 300).Draw(rt, "stream"))
		frameOf := func(msg message.Message, payload map[string][]byte) *wire.Frame {
			b := &frame.Body{Message: msg, CustomPayload: payload}
			plain, flags, err := wire.EncodeBody(v, b, false)
			if err != nil {
				plain, flags, _ = wire.EncodeBody(v, &frame.Body{Message: &message.Options{}}, false)
				msg = &message.Options{}
			}
			f, _ := wire.Build(v, false, flags, stream, msg.GetOpCode(), plain, "")
			return f
		}
		opts := &message.QueryOptions{Consistency: primitive.ConsistencyLevelOne}
		var f *wire.Frame
		note := ""
		ctok, cscript := "", []fakecass.Outcome(nil)
		switch k := rapid.IntRange(0, 15).Draw(rt, "hostilekind"); k {
		case 0: // hostile query text
			h := hostile(rt, "qtext")
			f, note = frameOf(&message.Query{Query: h, Options: opts}, nil), fmt.Sprintf("QUERY with text %.20q", h)
		case 1: // hostile keyspace in PREPARE (v5/DSEv2) and in query options
			h := hostile(rt, "ks")
			if v.SupportsPrepareFlags() {
				f, note = frameOf(&message.Prepare{Query: "SELECT * FROM local", Keyspace: h}, nil), fmt.Sprintf("PREPARE with keyspace %.20q", h)
			} else {
				f, note = frameOf(&message.Prepare{Query: h}, nil), fmt.Sprintf("PREPARE of %.20q", h)
			}
		case 2:
			h := hostile(rt, "ks")
			o := &message.QueryOptions{Consistency: primitive.ConsistencyLevelOne}
			if v.SupportsQueryFlag(primitive.QueryFlagWithKeyspace) {
				o.Keyspace = h
			}
			f, note = frameOf(&message.Query{Query: "SELECT * FROM local WHERE k = '" + h + "'", Options: o}, nil), fmt.Sprintf("QUERY with options keyspace %.20q", h)
		case 3: // USE with hostile identifiers
			h := hostile(rt, "use")
			f, note = frameOf(&message.Query{Query: "USE " + h, Options: opts}, nil), fmt.Sprintf("USE %.20q", h)
		case 4: // STARTUP with hostile option keys/values
			h1, h2 := hostile(rt, "sk"), hostile(rt, "sv")
			if len(h1) > 60000 {
				h1 = h1[:100]
			}
			if len(h2) > 60000 {
				h2 = h2[:100]
			}
			f, note = frameOf(&message.Startup{Options: map[string]string{"CQL_VERSION": "3.0.0", h1: h2, "COMPRESSION": rapid.SampledFrom([]string{"lz4", "LZ4", "\x00", "", "snappy"}).Draw(rt, "scomp")}}, nil), fmt.Sprintf("STARTUP with option %.15q=%.15q", h1, h2)
		case 5: // REGISTER with hostile event names (raw)
			h := hostile(rt, "ev")
			if len(h) > 60000 {
				h = h[:200]
			}
			f, _ = wire.Build(v, false, 0, stream, primitive.OpCodeRegister, c17RawStringList([]string{"SCHEMA_CHANGE", h}), "")
			note = fmt.Sprintf("REGISTER for %.15q", h)
		case 6: // prepared ids of odd lengths
			l := rapid.SampledFrom([]int{0, 1, 15, 16, 17, 65535}).Draw(rt, "idlen")
			ex := &message.Execute{QueryId: bytes.Repeat([]byte{0xAB}, l), Options: opts}
			if v.SupportsResultMetadataId() {
				ex.ResultMetadataId = []byte{1}
			}
			var body bytes.Buffer
			_ = binary.Write(&body, binary.BigEndian, uint16(l))
			body.Write(bytes.Repeat([]byte{0xAB}, l))
			if v.SupportsResultMetadataId() {
				body.Write([]byte{0, 1, 1})
			}
			body.Write([]byte{0, 1, 0})
			if v.Uses4BytesQueryFlags() {
				body.Write([]byte{0, 0, 0})
			}
			f, _ = wire.Build(v, false, 0, stream, primitive.OpCodeExecute, body.Bytes(), "")
			note = fmt.Sprintf("EXECUTE with a %d-byte id", l)
		case 7: // batch with very many children / hostile children
			nch := rapid.SampledFrom([]int{0, 1, 300, 65535}).Draw(rt, "nchildren")
			var body bytes.Buffer
			body.WriteByte(byte(rapid.IntRange(0, 3).Draw(rt, "btype")))
			_ = binary.Write(&body, binary.BigEndian, uint16(nch))
			h := hostile(rt, "child")
			if len(h) > 100 {
				h = h[:100]
			}
			for i := 0; i < nch; i++ {
				body.WriteByte(0)
				_ = binary.Write(&body, binary.BigEndian, uint32(len(h)))
				body.WriteString(h)
				body.Write([]byte{0, 0})
			}
			body.Write([]byte{0, 1, 0})
			if v.Uses4BytesQueryFlags() {
				body.Write([]byte{0, 0, 0})
			}
			f, _ = wire.Build(v, false, 0, stream, primitive.OpCodeBatch, body.Bytes(), "")
			note = fmt.Sprintf("BATCH with %d children %.10q", nch, h)
		case 8: // custom payload with hostile key / graph marker
			if v >= primitive.ProtocolVersion4 {
				h := hostile(rt, "pkey")
				if len(h) > 60000 {
					h = h[:100]
				}
				f, note = frameOf(&message.Query{Query: "SELECT * FROM ks1.t", Options: opts}, map[string][]byte{h: []byte("x"), "graph-source": nil}), fmt.Sprintf("QUERY with payload key %.15q", h)
			} else {
				f, note = frameOf(&message.Options{}, nil), "OPTIONS"
			}
		case 9: // named values with hostile names
			h := hostile(rt, "vname")
			if len(h) > 60000 {
				h = h[:100]
			}
			f, note = frameOf(&message.Query{Query: "INSERT INTO ks1.t (k) VALUES (:a)", Options: &message.QueryOptions{Consistency: primitive.ConsistencyLevelOne, NamedValues: map[string]*primitive.Value{h: primitive.NewValue([]byte("v"))}}}, nil), fmt.Sprintf("QUERY with value name %.15q", h)
		case 10: // prepared ids of odd lengths in a BATCH/EXECUTE that the backend then fails: the proxy has to decide about a retry
			l := rapid.SampledFrom([]int{1, 3, 15, 17, 32}).Draw(rt, "oddidlen")
			ctok = nextToken()
			id := bytes.Repeat([]byte{0xCD}, l)
			ins := &message.BatchChild{Query: "INSERT INTO ks1.t (k) VALUES ('" + ctok + "')"}
			if rapid.Bool().Draw(rt, "oddidexec") {
				f = frameOf(&message.Execute{QueryId: id, ResultMetadataId: []byte{1}, Options: &message.QueryOptions{Consistency: primitive.ConsistencyLevelOne, PositionalValues: []*primitive.Value{primitive.NewValue([]byte(ctok))}}}, nil)
				note = fmt.Sprintf("EXECUTE with a %d-byte id", l)
			} else {
				ch := []*message.BatchChild{ins, {Id: id}}
				if rapid.Bool().Draw(rt, "oddidfirst") {
					ch[0], ch[1] = ch[1], ch[0]
				}
				f = frameOf(&message.Batch{Consistency: primitive.ConsistencyLevelOne, Children: ch}, nil)
				note = fmt.Sprintf("BATCH with a prepared child whose id has %d bytes", l)
			}
			cscript = []fakecass.Outcome{{Kind: rapid.SampledFrom([]string{"server_error", "write_timeout", "overloaded", "truncate", "read_failure", "write_failure", "drop", "unavailable"}).Draw(rt, "oddidoutcome"), WriteType: "BATCH_LOG"}}
			note += ", which the backend answers with " + cscript[0].Kind
		default: // a valid frame whose header gets mutated below
			msg := []message.Message{&message.Options{}, &message.Query{Query: "SELECT * FROM system.peers", Options: opts}, &message.Startup{Options: map[string]string{"CQL_VERSION": "3.0.0"}},
				&message.Prepare{Query: "SELECT * FROM ks1.t"}, &message.Register{EventTypes: []primitive.EventType{primitive.EventTypeSchemaChange}}, &message.AuthResponse{Token: []byte("t")}}[rapid.IntRange(0, 5).Draw(rt, "validmsg")]
			f, note = frameOf(msg, nil), fmt.Sprintf("%T", msg)
		}
		raw := f.Bytes()
		// header / framing mutations
		switch rapid.IntRange(0, 11).Draw(rt, "framemut") {
		case 0:
			raw[0] = rapid.Byte().Draw(rt, "versionbyte")
			note += fmt.Sprintf(" with version byte %#x", raw[0])
		case 1:
			raw[1] = rapid.Byte().Draw(rt, "flags")
			note += fmt.Sprintf(" with flags %#x", raw[1])
		case 2:
			raw[4] = rapid.Byte().Draw(rt, "opcode")
			note += fmt.Sprintf(" with opcode %d", raw[4])
		case 3:
			l := rapid.SampledFrom([]uint32{0, uint32(len(raw) - 10), uint32(len(raw) - 8), 0xFFFFFFFF, 1 << 24, 0x80000000, 100}).Draw(rt, "declared")
			binary.BigEndian.PutUint32(raw[5:], l)
			note += fmt.Sprintf(" declaring %d body bytes (has %d)", int32(l), len(raw)-9)
		case 4:
			cut := rapid.IntRange(0, len(raw)).Draw(rt, "cut")
			raw = raw[:cut]
			note += fmt.Sprintf(" truncated to %d bytes", cut)
		case 5: // compressed flag with a lying or garbage compressed body
			raw[1] |= wire.FlagCompressed
			lie := rapid.SampledFrom([]uint32{0, 1, 0xFFFFFFFF, 16 << 20, uint32(len(raw))}).Draw(rt, "lie")
			body := make([]byte, 4)
			binary.BigEndian.PutUint32(body, lie)
			body = append(body, raw[9:]...)
			raw = append(raw[:9], body...)
			binary.BigEndian.PutUint32(raw[5:], uint32(len(raw)-9))
			note += fmt.Sprintf(" flagged compressed with length prefix %d", int32(lie))
		case 6:
			raw[0] |= 0x80
			note += " with the response direction bit"
		}
		c.Chunks = append(c.Chunks, c17Chunk{Hex: hex.EncodeToString(raw), Note: note, Pause: rapid.SampledFrom([]int{0, 0, 0, 2}).Draw(rt, "pause"), Tok: ctok, Script: cscript})
	}
	if c.Startup != "-" && rapid.IntRange(0, 69).Draw(rt, "flood") == 0 {
		c.Flood = rapid.IntRange(1400, 2600).Draw(rt, "floodn")
	}
	switch rapid.IntRange(0, 11).Draw(rt, "tls") {
	case 0: // the same hostile frames, inside a TLS session
		c.TLS = "inner"
	case 1: // a peer that does not (or not properly) speak TLS to the TLS listener
		c.TLS = "raw"
		switch rapid.IntRange(0, 4).Draw(rt, "tlsraw") {
		case 0:
			c.Chunks = []c17Chunk{{Hex: "", Note: "nothing at all"}}
		case 1:
			n := rapid.IntRange(1, 9).Draw(rt, "part")
			hello := []byte{0x16, 0x03, 0x01, 0x02, 0x00, 0x01, 0x00, 0x01, 0xfc, 0x03}
			c.Chunks = []c17Chunk{{Hex: hex.EncodeToString(hello[:n]), Note: fmt.Sprintf("the first %d bytes of a TLS ClientHello record", n)}}
		case 2:
			b := rapid.SliceOfN(rapid.Byte(), 1, 64).Draw(rt, "garbage")
			c.Chunks = []c17Chunk{{Hex: hex.EncodeToString(b), Note: fmt.Sprintf("%d random bytes", len(b))}}
		case 3:
			// keep the generated CQL frames: plain CQL spoken to the TLS port
		case 4:
			c.Chunks = []c17Chunk{{Hex: "16030100050100000100", Note: "a TLS record announcing a 1-byte ClientHello body, then silence"}}
		}
		if c.End == "close" {
			c.End = "linger" // what matters is a peer that stays connected
		}
	}
	return c
}

// ---- hostile backend replies ----

type c17Backend struct {
	Hosts    int              `json:"hosts"`
	Conns    int              `json:"conns"`
	Kind     string           `json:"request"` // query | execute | batch | prepare
	Outcome  fakecass.Outcome `json:"outcome"`
	Internal string           `json:"internal,omitempty"` // also queue this outcome for an internal request kind
	Repeat   int              `json:"repeat,omitempty"`   // queue it this many times (every connection gets one)
	Note     string           `json:"note"`
}

func c17BackendCheck(c c17Backend) *evid.Fail {
	v, err := getVictim(false, 4, c.Hosts, c.Conns, false)
	if err != nil {
		return evid.Failf("harness-victim", "%v", err)
	}
	v.cl.ClearInternal() // hostile replies a previous case queued but the proxy never asked for
	defer v.cl.ClearInternal()
	cl, err := rawcli.Dial(v.addr)
	if err != nil {
		return evid.Failf("harness-client", "%v", err)
	}
	defer cl.Close()
	if err := cl.Startup(4, "", posWait); err != nil {
		return evid.Failf("harness-startup", "%v", err)
	}
	r := &runner{c: cl, v: 4, stream: 50, prepared: map[string][]byte{}}
	r.e = &env{Cluster: v.cl}
	if c.Outcome.Kind == "unprepared" && c.Outcome.UnpreparedID == "cached" {
		c.Outcome.UnpreparedID = hex.EncodeToString(v.canaryID) // an id that is in the proxy's prepared cache
	}
	if c.Internal != "" {
		for i := 0; i < c.Repeat; i++ {
			v.cl.QueueInternal(c.Internal, c.Outcome)
		}
		v.cl.QueueInternal(c.Internal, c.Outcome)
		if c.Internal == "use" {
			// a new session (and its USE on every pooled connection) is created by a client USE
			_ = cl.SendMsg(4, 7, &message.Query{Query: "USE ks1", Options: &message.QueryOptions{Consistency: primitive.ConsistencyLevelOne}}, false)
			cl.WaitStream(7, 0, 1, 3*time.Second)
		} else if c.Internal == "system_local" || c.Internal == "system_peers" {
			// make the control connection re-read the system tables
			for _, cn := range v.cl.RegisteredConns() {
				cn.Close()
			}
			time.Sleep(60 * time.Millisecond)
		} else {
			time.Sleep(90 * time.Millisecond) // heartbeats run every 40ms
		}
	} else {
		tok := nextToken()
		q := reqSpec{Kind: c.Kind, Token: tok, Stmt: stmtSpec{Text: "SELECT * FROM ks1.t WHERE k = '" + tok + "'", Idem: true},
			Children: []childSpec{{Stmt: stmtSpec{Text: "INSERT INTO ks1.t (k) VALUES ('" + tok + "')", Idem: true}}}}
		o := c.Outcome
		if c.Kind == "prepare" {
			v.cl.Script(tok, []fakecass.Outcome{o})
			_ = cl.SendMsg(4, 9, &message.Prepare{Query: q.Stmt.Text}, false)
		} else {
			if c.Kind == "execute" {
				// the proxy's re-PREPARE can be the target as well: script the PREPARE token's second attempt
				q.Script = []fakecass.Outcome{o}
			} else {
				q.Script = []fakecass.Outcome{o}
			}
			if _, err := r.send(&q); err != nil {
				return evid.Failf("harness-send", "%v", err)
			}
		}
		// the hostile reply may leave the victim request unanswered (that connection is the backend's problem);
		// give it a moment, then judge by the process and the canary
		time.Sleep(15 * time.Millisecond)
	}
	f := v.canaryCheck(fmt.Sprintf("a backend answered %s with %s", map[bool]string{true: "an internal " + c.Internal + " request", false: "a " + c.Kind}[c.Internal != ""], c.Note))
	if f != nil && !strings.HasPrefix(f.Sig, "harness") {
		dropVictim(v)
	}
	return f
}

func c17GenBackend(rt *rapid.T) c17Backend {
	c := c17Backend{Hosts: rapid.IntRange(2, 3).Draw(rt, "hosts"), Conns: rapid.IntRange(1, 2).Draw(rt, "conns"), Kind: rapid.SampledFrom([]string{"query", "execute", "batch", "prepare"}).Draw(rt, "request")}
	errBody := func(code int32, n int) string {
		var b bytes.Buffer
		_ = binary.Write(&b, binary.BigEndian, code)
		b.Write([]byte{0, 3, 'e', 'r', 'r', 0, 1, 2, 3, 4, 5, 6, 7, 8})
		bs := b.Bytes()
		if n < len(bs) {
			bs = bs[:n]
		}
		return hex.EncodeToString(bs)
	}
	then := rapid.SampledFrom([]string{"", "ok", "drop"}).Draw(rt, "then")
	switch k := rapid.IntRange(0, 12).Draw(rt, "hostilereply"); k {
	case 0:
		d := rapid.SampledFrom([]int{1, 1000, -1, 2047, 5}).Draw(rt, "delta")
		c.Outcome, c.Note = fakecass.Outcome{Kind: "rawframe", RawOp: 8, RawBody: "00000001", RawStreamDelta: d, Then: then}, fmt.Sprintf("a RESULT on stream+%d (not pending)", d)
	case 1:
		op := rapid.SampledFrom([]int{1, 5, 7, 9, 10, 11, 13, 15}).Draw(rt, "reqop")
		c.Outcome, c.Note = fakecass.Outcome{Kind: "rawframe", RawOp: op, RawBody: "0000", Then: then}, fmt.Sprintf("a frame with request opcode %d", op)
	case 2:
		op := rapid.SampledFrom([]int{4, 17, 200, 255}).Draw(rt, "unkop")
		c.Outcome, c.Note = fakecass.Outcome{Kind: "rawframe", RawOp: op, RawBody: "00", Then: then}, fmt.Sprintf("a frame with unknown opcode %d", op)
	case 3:
		c.Outcome, c.Note = fakecass.Outcome{Kind: "rawframe", RawVersion: 4, RawOp: 8, RawBody: "00000001", Then: then}, "a frame with the request direction bit"
	case 4:
		n := rapid.IntRange(0, 18).Draw(rt, "errlen")
		code := rapid.SampledFrom([]int32{0x2500, 0x1100, 0x1000, 0, 0x2200}).Draw(rt, "errcode")
		flags := rapid.SampledFrom([]int{0, 0, 0x02, 0x08, 0x04, 0x0a, 0x0e}).Draw(rt, "errflags") // tracing / warning / payload announced, body too short for them
		c.Outcome, c.Note = fakecass.Outcome{Kind: "rawframe", RawOp: 0, RawFlags: flags, RawBody: errBody(code, n), Then: then}, fmt.Sprintf("an ERROR (code %#x, flags %#x) whose body has %d bytes", code, flags, n)
	case 5:
		if rapid.Bool().Draw(rt, "cachedid") {
			c.Outcome, c.Note = fakecass.Outcome{Kind: "unprepared", UnpreparedID: "cached"}, "UNPREPARED naming a cached id"
		} else {
			c.Outcome, c.Note = fakecass.Outcome{Kind: "unprepared"}, "UNPREPARED (unknown id)"
		}
	case 6:
		c.Outcome, c.Note = fakecass.Outcome{Kind: "rawframe", RawOp: 6, RawBody: "0000", Then: then}, "SUPPORTED"
	case 7:
		c.Outcome, c.Note = fakecass.Outcome{Kind: "rawframe", RawOp: 12, RawStreamDelta: 0, RawBody: "000d534348454d415f4348414e4745ffff", Then: then}, "an EVENT with a garbage body on the request's stream"
	case 8:
		c.Outcome, c.Note = fakecass.Outcome{Kind: "bytes", RawBody: hex.EncodeToString(protogen.Bytes(rt, "garbage", rapid.IntRange(1, 64).Draw(rt, "garbagelen"))), Then: then}, "random bytes"
	case 9:
		c.Outcome, c.Note = fakecass.Outcome{Kind: "bytes", RawBody: "8400000108" + "01000000", Then: ""}, "a frame header announcing 16MiB followed by silence"
	case 10:
		c.Outcome, c.Note = fakecass.Outcome{Kind: "rawframe", RawOp: 8, RawBody: "00000002" + "00000001" + "00000003" + "0003" + "6b7331", Then: then}, "a ROWS result with inconsistent metadata"
	case 11:
		c.Outcome, c.Note = fakecass.Outcome{Kind: "rawframe", RawOp: 8, RawFlags: 1, RawBody: "ffffffffdeadbeef", Then: then}, "a RESULT flagged compressed on an uncompressed connection"
	case 12:
		// well-formed answers on the request's own stream that do not fit the request (a PREPARE answered with a Void
		// result, a QUERY answered with READY ...)
		w := rapid.SampledFrom([][3]string{{"8", "00000001", "a well-formed RESULT Void"}, {"8", "00000003" + "0003" + "6b7331", "a well-formed RESULT Set_keyspace"},
			{"8", "00000005" + "0007" + "43524541544544" + "0008" + "4b45595350414345" + "0003" + "6b7331", "a well-formed RESULT Schema_change"},
			{"8", "00000002" + "00000004" + "00000000" + "00000000", "a well-formed empty RESULT Rows (no metadata)"},
			{"2", "", "READY"}, {"16", "ffffffff", "AUTH_SUCCESS"}, {"3", "0001" + "78", "AUTHENTICATE"}, {"14", "00000000", "AUTH_CHALLENGE"}}).Draw(rt, "misfit")
		op, _ := strconv.Atoi(w[0])
		c.Outcome, c.Note = fakecass.Outcome{Kind: "rawframe", RawOp: op, RawBody: w[1], Then: then}, w[2]+" in answer to the request"
	}
	if rapid.IntRange(0, 2).Draw(rt, "internal") == 0 {
		c.Internal = rapid.SampledFrom([]string{"options", "use", "system_local", "system_peers"}).Draw(rt, "internalkind")
	}
	if rapid.IntRange(0, 7).Draw(rt, "hostilerows") == 0 {
		// a well-formed ROWS answer to the proxy's own system.local / system.peers query whose content is unusable
		c.Internal = rapid.SampledFrom([]string{"system_local", "system_peers"}).Draw(rt, "rowstarget")
		col := func(name string, t datatype.DataType, i int) *message.ColumnMetadata {
			return &message.ColumnMetadata{Keyspace: "system", Table: "local", Name: name, Index: int32(i), Type: t}
		}
		variant := rapid.SampledFrom([]string{"rpc_address is null", "rpc_address is 3 bytes", "no rpc_address column", "only a key column", "data_center is null", "every cell is null", "two rows, both without usable address", "rpc_address is a varchar"}).Draw(rt, "rowsvariant")
		cols := []*message.ColumnMetadata{col("key", datatype.Varchar, 0), col("rpc_address", datatype.Inet, 1), col("data_center", datatype.Varchar, 2), col("host_id", datatype.Uuid, 3), col("tokens", datatype.NewSet(datatype.Varchar), 4),
			col("release_version", datatype.Varchar, 5), col("partitioner", datatype.Varchar, 6), col("cql_version", datatype.Varchar, 7), col("peer", datatype.Inet, 8)}
		row := message.Row{[]byte("local"), {127, 9, 9, 9}, []byte("dc1"), make([]byte, 16), nil, []byte("4.0.0"), []byte("org.apache.cassandra.dht.Murmur3Partitioner"), []byte("3.4.5"), {127, 9, 9, 8}}
		rows := message.RowSet{row}
		switch variant {
		case "rpc_address is null":
			row[1], row[8] = nil, nil
		case "rpc_address is 3 bytes":
			row[1], row[8] = []byte{1, 2, 3}, []byte{1, 2, 3}
		case "no rpc_address column":
			cols, row = append(cols[:1:1], cols[2:8]...), append(row[:1:1], row[2:8]...)
			rows = message.RowSet{row}
		case "only a key column":
			cols, rows = cols[:1], message.RowSet{row[:1]}
		case "data_center is null":
			row[2] = nil
		case "every cell is null":
			for i := range row {
				row[i] = nil
			}
		case "two rows, both without usable address":
			r2 := append(message.Row(nil), row...)
			row[1], row[8], r2[1], r2[8] = nil, nil, []byte{}, []byte{}
			rows = message.RowSet{row, r2}
		case "rpc_address is a varchar":
			cols[1], cols[8] = col("rpc_address", datatype.Varchar, 1), col("peer", datatype.Varchar, 8)
			row[1], row[8] = []byte("not-an-address"), []byte("nope")
		}
		for i := range cols {
			cols[i].Index = int32(i)
		}
		body, _, err := wire.EncodeBody(primitive.ProtocolVersion4, &frame.Body{Message: &message.RowsResult{Metadata: &message.RowsMetadata{ColumnCount: int32(len(cols)), Columns: cols}, Data: rows}}, true)
		if err == nil {
			c.Outcome, c.Note = fakecass.Outcome{Kind: "rawframe", RawOp: 8, RawBody: hex.EncodeToString(body), Then: ""}, "a well-formed ROWS result for "+c.Internal+" in which "+variant
			c.Repeat = 2
		}
	}
	return c
}

func TestC17(t *testing.T) {
	rec := evid.New("C17", "fault_enumeration",
		"the proxy runs as a child process (the real cql-proxy binary or a host program with fast timers) in front of a fake cluster, with a well-behaved canary client; "+
			"(a) hostile client streams: frames carrying hostile strings in every string-typed field (query text, PREPARE/options keyspace, USE, STARTUP keys/values, REGISTER event names, payload keys, value names, batch children), ids of odd lengths, batches with up to 65535 children, then header/framing mutations (any version byte, flags, opcode, declared lengths 0/-1/real+-1/16MiB, truncation, compressed flag with lying length prefixes, direction bit), under every max-version setting, with or without STARTUP/compression, followed by close/half-close/nothing; the same inside a TLS session against a TLS listener (--proxy-cert-file), and peers that never complete or garble the TLS handshake (nothing, partial ClientHello, random bytes, plain CQL) and stay connected; "+
			"(b) hostile backend replies to forwarded requests and to the proxy's own requests (heartbeats, USE, control-connection system queries): wrong stream, request/unknown opcodes, wrong direction, short ERROR bodies, UNPREPARED, SUPPORTED, EVENT garbage, random bytes, 16MiB announced then silence, inconsistent ROWS, bogus compression; "+
			"oracle: the child process is still running and the canary's system query, forwarded query and prepared execute are answered correctly; "+
			"non-trivial = input that is not rejected by the 9-byte header check alone (valid header, or a mutation inside the body), or any hostile backend reply; distinct by case content")
	defer finish(t, rec)
	rec.Assume("declared body lengths above 16 MiB are out of scope (resource question)", "the canary's forwarded requests are idempotent; after a hostile backend reply the proxy may need to replace backend connections, so the canary retries for up to 4s before judging")
	defer func() {
		for _, v := range victims {
			v.stop()
		}
	}()
	// a fixed handful of very large frames (within the 16 MiB scope): deeply nested statements that are PREPAREd
	// (the proxy classifies a statement when its PREPARE succeeds) or queried
	runEnum(t, rec, "client-deep", func(yield func(c17Client) bool) {
		shard, shards := evid.Shard()
		i := 0
		for _, open := range []string{"[", "(", "{"} {
			for _, op := range []string{"prepare", "query"} {
				i++
				if i%shards != shard {
					continue
				}
				text := "INSERT INTO ks1.t (a) VALUES (" + strings.Repeat(open, 15<<20)
				var msg message.Message = &message.Prepare{Query: text}
				if op == "query" {
					msg = &message.Query{Query: text, Options: &message.QueryOptions{Consistency: primitive.ConsistencyLevelOne}}
				}
				f, _ := wire.Msg(primitive.ProtocolVersion4, false, 5, msg, "")
				c := c17Client{MaxVersion: 4, Real: op == "query", End: "linger", Chunks: []c17Chunk{{Hex: hex.EncodeToString(f.Bytes()), Note: fmt.Sprintf("%s of a statement nested %d levels deep with %q", strings.ToUpper(op), 15<<20, open), Pause: 300}}}
				rec.Case(fmt.Sprintf("deep:%s:%s", op, open), "frame:deep-nesting")
				if !yield(c) {
					return
				}
			}
		}
	}, c17ClientCheck)
	runProp(t, rec, "client", perShard(evid.Pick(1600, 48000)), func(rt *rapid.T) c17Client {
		c := c17GenClient(rt)
		labels := []string{"max:" + protogen.VersionName(primitive.ProtocolVersion(c.MaxVersion)), "end:" + c.End, map[bool]string{true: "victim:cql-proxy", false: "victim:proxyhost"}[c.Real || c.TLS != ""]}
		if c.TLS != "" {
			labels = append(labels, "tls-listener:"+c.TLS)
		}
		if c.Flood > 0 {
			labels = append(labels, "flood-and-vanish")
		}
		key := ""
		for _, ch := range c.Chunks {
			w := strings.Fields(ch.Note)
			if len(w) > 0 {
				labels = append(labels, "frame:"+w[0])
			}
			if !strings.Contains(ch.Note, "version byte") && !strings.Contains(ch.Note, "truncated to") {
				key = js(c)
			}
		}
		rec.Case(key, labels...)
		if len(c.Chunks) == 1 && len(c.Chunks[0].Hex) < 400 {
			rec.Sample(c)
		}
		return c
	}, c17ClientCheck)
	stopVictims() // the backend family starts with fresh victims
	// a fixed handful: UNPREPARED naming an id that is in the proxy's cache, in answer to the proxy's own requests
	runEnum(t, rec, "backend-fixed", func(yield func(c17Backend) bool) {
		for _, internal := range []string{"options", "use", "options", "system_local"} {
			c := c17Backend{Hosts: 2, Conns: 1, Kind: "query", Internal: internal, Outcome: fakecass.Outcome{Kind: "unprepared", UnpreparedID: "cached"}, Note: "UNPREPARED naming a cached id", Repeat: 6}
			rec.Case(js(c), "backend:UNPREPARED naming", "target:internal:"+internal)
			if !yield(c) {
				return
			}
		}
	}, c17BackendCheck)
	runProp(t, rec, "backend", perShard(evid.Pick(400, 12000)), func(rt *rapid.T) c17Backend {
		c := c17GenBackend(rt)
		w := append(strings.Fields(c.Note), "", "")
		rec.Case(js(c), "backend:"+w[0]+" "+w[1], "target:"+map[bool]string{true: "internal:" + c.Internal, false: c.Kind}[c.Internal != ""])
		rec.Sample(c)
		return c
	}, c17BackendCheck)
}
