package checks

import (
	"fmt"
	"strings"
	"testing"
	"time"

	"github.com/datastax/go-cassandra-native-protocol/message"
	"github.com/datastax/go-cassandra-native-protocol/primitive"
	"pgregory.net/rapid"

	"verif/harness/evid"
	"verif/harness/fakecass"
	"verif/harness/rawcli"
)

// ---- C02: a response is delivered only to the request (stream, client) that caused it ----

// (a) storm tuned for collisions: clients share stream ids, replies are held and released
// in a generated order.
func c02Gen(rt *rapid.T) stormCase {
	c := stormCase{Hosts: rapid.IntRange(1, 3).Draw(rt, "hosts"), Conns: rapid.IntRange(1, 2).Draw(rt, "conns")}
	nc := rapid.IntRange(2, 6).Draw(rt, "nclients")
	nq := rapid.IntRange(1, evid.Pick(16, 40)).Draw(rt, "nreq")
	baseStream := int16(rapid.IntRange(0, 200).Draw(rt, "basestream"))
	for i := 0; i < nc; i++ {
		sc := stormClient{Version: 4, Comp: rapid.SampledFrom([]string{"", "", "lz4", "snappy"}).Draw(rt, "ccomp")}
		for j := 0; j < nq; j++ {
			q := genReq(rt, rapid.Bool().Draw(rt, "idem"), false, false)
			n := rapid.IntRange(1, 3).Draw(rt, "scriptlen")
			for k := 0; k < n; k++ {
				switch rapid.IntRange(0, 9).Draw(rt, "o") {
				case 0, 1, 2, 3, 4:
					q.Script = append(q.Script, fakecass.Outcome{Kind: "hold"})
				case 5, 6:
					q.Script = append(q.Script, fakecass.Outcome{Kind: "ok"})
				case 7:
					q.Script = append(q.Script, fakecass.Outcome{Kind: "unavailable"})
				default:
					q.Script = append(q.Script, genOutcome(rt, false))
				}
			}
			st := baseStream + int16(j) // the same ids on every client
			sc.Reqs = append(sc.Reqs, stormReq{reqSpec: q, Stream: &st})
		}
		c.Clients = append(c.Clients, sc)
	}
	n := rapid.IntRange(0, 12).Draw(rt, "nsteps")
	for i := 0; i < n; i++ {
		c.Steps = append(c.Steps, stormStep{Op: "release", Token: rapid.IntRange(0, 500).Draw(rt, "rel")})
	}
	return c
}

// (b) recycle every backend stream id, then hold concurrent requests and release them in a
// generated permutation; (c) exceed the per-connection stream limit.
type c02Cycle struct {
	Warm     int   `json:"warmup_requests"` // sequential echo requests before the concurrent phase
	Stream   int   `json:"warmup_client_stream"`
	Clients  int   `json:"clients"`
	Held     int   `json:"held_per_client"`
	Order    []int `json:"release_order"`
	Hosts    int   `json:"hosts"`
	Conns    int   `json:"conns"`
	Exhaust  bool  `json:"exhaust"`                   // hold more than 2048 requests on one backend connection
	Overflow int   `json:"overflow,omitempty"`        // how many beyond the limit
	LateHB   bool  `json:"late_heartbeats,omitempty"` // heartbeat replies time out and arrive late, while every stream id is in use
}

func c02Query(v primitive.ProtocolVersion, stream int16, token string, comp string) []byte {
	f, err := buildFrame(v, stream, &message.Query{Query: "SELECT * FROM ks1.t WHERE tokc = '" + token + "'", Options: &message.QueryOptions{Consistency: primitive.ConsistencyLevelOne}}, false, comp, false)
	if err != nil {
		panic(err)
	}
	return f.Bytes()
}

func c02CycleCheck(c c02Cycle) *evid.Fail {
	o := envOpts{Hosts: c.Hosts, NumConns: c.Conns, Keyspaces: []string{"ks1"}}
	if c.LateHB {
		o.HeartBeat, o.ConnectTimeout, o.Idle = 10*time.Millisecond, 40*time.Millisecond, 60*time.Second
	}
	e, err := startEnv(o)
	if err != nil {
		return evid.Failf("harness-env", "%v", err)
	}
	defer e.Close()
	if c.LateHB {
		e.Cluster.SetHoldOptions(true)
		// let a few heartbeats time out inside the proxy (their replies will arrive late); if the
		// machine is slow this only explores less, it cannot raise an alarm
		time.Sleep(120 * time.Millisecond)
	}
	var cls []*rawcli.Client
	for i := 0; i < c.Clients; i++ {
		cl, err := e.client(4, "")
		if err != nil {
			return evid.Failf("harness-client", "%v", err)
		}
		cls = append(cls, cl)
	}
	decode := func(cl *rawcli.Client, r *rawcli.Recv) *replyInfo {
		b, err := cl.Decode(r)
		if err != nil {
			return &replyInfo{Text: "undecodable " + err.Error()}
		}
		ri := &replyInfo{Msg: b.Message}
		if em, ok := b.Message.(message.Error); ok {
			ri.IsError, ri.Code, ri.Text = true, em.GetErrorCode(), em.GetErrorMessage()
		}
		ri.Echo, _ = parseEcho(b.Message)
		return ri
	}
	// warm-up: sequential windows of pipelined echo queries on client 0, all on few client stream ids
	cl0 := cls[0]
	const window = 64
	for sentN := 0; sentN < c.Warm; {
		n := window
		if c.Warm-sentN < n {
			n = c.Warm - sentN
		}
		from := cl0.NumFrames()
		toks := make([]string, n)
		var buf []byte
		for i := 0; i < n; i++ {
			toks[i] = nextToken()
			buf = append(buf, c02Query(4, int16(c.Stream+i), toks[i], "")...)
		}
		if err := cl0.Send(buf); err != nil {
			return evid.Failf("harness-send", "%v", err)
		}
		stallReset()
		if !cl0.WaitN(from+n, posWait) {
			if stalled(posWait) {
				return evid.Failf("harness-stall", "stalled")
			}
			return evid.Failf("no-reply:warmup", "warm-up window of %d requests got %d replies", n, cl0.NumFrames()-from)
		}
		for _, r := range cl0.Frames()[from : from+n] {
			i := int(r.F.Stream) - c.Stream
			if i < 0 || i >= n {
				return evid.Failf("stray-frame", "reply on stream %d during warm-up", r.F.Stream)
			}
			ri := decode(cl0, r)
			if ri.Echo == nil || ri.Echo.Tok != toks[i] {
				return evid.Failf("answer-swapped:warmup", "stream %d sent token %s but received %v (after %d requests)", r.F.Stream, toks[i], ri, sentN)
			}
		}
		sentN += n
	}
	// concurrent phase: every client holds Held requests on the same client stream ids
	held := c.Held
	type hr struct {
		cl     int
		stream int16
		tok    string
	}
	var hrs []hr
	base := make([]int, len(cls))
	for ci, cl := range cls {
		base[ci] = cl.NumFrames()
		var buf []byte
		for j := 0; j < held; j++ {
			tok := nextToken()
			e.Cluster.Script(tok, []fakecass.Outcome{{Kind: "hold"}})
			hrs = append(hrs, hr{ci, int16(j), tok})
			buf = append(buf, c02Query(4, int16(j), tok, "")...)
		}
		if err := cl.Send(buf); err != nil {
			return evid.Failf("harness-send", "%v", err)
		}
	}
	total := len(hrs)
	limit := total
	if c.Exhaust {
		limit = 2048 * c.Hosts * c.Conns
		if limit > total {
			limit = total
		}
	}
	stallReset()
	// wait until the backend holds what it can hold; requests beyond the stream limit are answered with an error
	deadline := time.Now().Add(posWait)
	for {
		nh := len(e.Cluster.HeldTokens())
		answered := 0
		for ci, cl := range cls {
			answered += cl.NumFrames() - base[ci]
		}
		if nh+answered >= total {
			break
		}
		if time.Now().After(deadline) {
			if stalled(posWait) {
				return evid.Failf("harness-stall", "stalled")
			}
			return evid.Failf("no-reply:held", "%d requests sent, backend holds %d, clients got %d replies", total, nh, answered)
		}
		time.Sleep(time.Millisecond)
	}
	// release in the generated order (indices into the held list, modulo), then everything else
	if c.LateHB {
		e.Cluster.ReleaseOptions() // the late heartbeat replies arrive while (nearly) every stream id is taken
		time.Sleep(5 * time.Millisecond)
	}
	tokens := e.Cluster.HeldTokens()
	for _, o := range c.Order {
		if len(tokens) > 0 {
			e.Cluster.Release(tokens[o%len(tokens)])
		}
	}
	e.Cluster.ReleaseAll()
	for ci, cl := range cls {
		if !cl.WaitN(base[ci]+held, posWait) {
			if stalled(posWait) {
				return evid.Failf("harness-stall", "stalled")
			}
			return evid.Failf("no-reply:held", "client %d: %d of %d held requests answered", ci, cl.NumFrames()-base[ci], held)
		}
	}
	for _, cl := range cls {
		_, _ = cl.Fence(4, posWait)
		cl.Quiesce(5*time.Millisecond, 100*time.Millisecond)
	}
	errs := 0
	for _, h := range hrs {
		cl := cls[h.cl]
		var got []*rawcli.Recv
		for _, r := range cl.Frames()[base[h.cl]:] {
			if r.F.Stream == h.stream {
				got = append(got, r)
			}
		}
		if len(got) != 1 {
			return evid.Failf("reply-count", "client %d stream %d (token %s) got %d replies", h.cl, h.stream, h.tok, len(got))
		}
		ri := decode(cl, got[0])
		switch {
		case ri.Echo != nil:
			if ri.Echo.Tok != h.tok {
				return evid.Failf("answer-swapped", "client %d stream %d sent token %s but received the result of token %s (warm-up %d, %d held)", h.cl, h.stream, h.tok, ri.Echo.Tok, c.Warm, total)
			}
		case ri.IsError && c.Exhaust && !strings.Contains(ri.Text, "tok="):
			errs++ // beyond the stream limit: the proxy's own error for this request
		default:
			return evid.Failf("answer-foreign", "client %d stream %d (token %s) received %v", h.cl, h.stream, h.tok, ri)
		}
	}
	if c.Exhaust && total > limit && errs == 0 {
		return evid.Failf("exhaustion-not-reported", "%d requests were held on connections that allow %d streams and none was refused", total, limit)
	}
	if !c.Exhaust && errs > 0 {
		return evid.Failf("answer-foreign", "%d requests answered with an error although the stream limit was not reached", errs)
	}
	return nil
}

func TestC02(t *testing.T) {
	rec := evid.New("C02", "exploration",
		"(a) 2..6 clients using the same client stream ids pipeline requests whose backend replies are held and released in a generated order (plus retried errors); (b) the 2048 backend stream ids of a connection are recycled by thousands of sequential requests, then several clients hold requests concurrently on equal stream ids and the backend releases them in a generated permutation; (c) more requests than the per-connection stream limit are held at once; "+
			"oracle: the token echoed in the frame received on (client, stream) is the token sent there (errors carry the token too); beyond the limit a request gets its own single proxy error; "+
			"non-trivial = >=2 requests in flight on one backend connection released out of order, or equal stream ids live on >=2 clients; distinct by case content")
	defer finish(t, rec)
	rec.SetJournalAll(true)
	rec.Assume("tokens make a request recognisable: statement text for QUERY/PREPARE, bound value for EXECUTE/BATCH; the fake backend echoes them")

	runProp(t, rec, "storm", perShard(evid.Pick(500, 20000)), func(rt *rapid.T) stormCase {
		c := c02Gen(rt)
		labels, nreq, _, parks, _ := stormClassify(&c)
		key := ""
		if len(c.Clients) >= 2 && parks >= 2 {
			key = stormKey(&c)
		}
		rec.Case(key, append(labels, fmt.Sprintf("clients:%d", len(c.Clients)))...)
		rec.ExtraAdd("requests_sent", int64(nreq))
		rec.Sample(stormSample(c))
		return c
	}, func(c stormCase) *evid.Fail {
		res, f := runStorm(&c, rec)
		if f != nil {
			if f.Sig == "harness-stall" {
				inconclusive(rec, "%s", f.Msg)
			}
			return f
		}
		if f := oracleOwnAnswer(res); f != nil {
			return f
		}
		return oracleOneReply(res)
	})

	runProp(t, rec, "cycle", perShard(evid.Pick(24, 1200)), func(rt *rapid.T) c02Cycle {
		c := c02Cycle{Warm: rapid.IntRange(2049, 6500).Draw(rt, "warm"), Stream: rapid.SampledFrom([]int{0, 7, 1000, 20000}).Draw(rt, "stream"),
			Clients: rapid.IntRange(2, 4).Draw(rt, "clients"), Held: rapid.IntRange(2, 40).Draw(rt, "held"),
			Order: rapid.SliceOfN(rapid.IntRange(0, 1000), 0, 60).Draw(rt, "order"), Hosts: rapid.IntRange(1, 2).Draw(rt, "hosts"), Conns: 1}
		rec.Case("cycle:"+js(c), "cycle", fmt.Sprintf("cycle-hosts:%d", c.Hosts))
		rec.ExtraAdd("requests_sent", int64(c.Warm+c.Clients*c.Held))
		rec.Sample(c)
		return c
	}, c02CycleCheck)

	runProp(t, rec, "exhaust", perShard(evid.Pick(16, 300)), func(rt *rapid.T) c02Cycle {
		over := rapid.IntRange(1, 900).Draw(rt, "overflow")
		clients := rapid.IntRange(1, 3).Draw(rt, "clients")
		c := c02Cycle{Warm: rapid.IntRange(0, 300).Draw(rt, "warm"), Clients: clients, Held: (2048+over)/clients + 1, Hosts: 1, Conns: 1, Exhaust: true, Overflow: over,
			Order: rapid.SliceOfN(rapid.IntRange(0, 5000), 0, 100).Draw(rt, "order")}
		c.LateHB = rapid.Bool().Draw(rt, "latehb")
		rec.Case("exhaust:"+js(c), "stream-exhaustion", map[bool]string{true: "late-heartbeats", false: ""}[c.LateHB])
		rec.ExtraAdd("requests_sent", int64(c.Warm+c.Clients*c.Held))
		return c
	}, c02CycleCheck)
}
