package checks

import (
	"bytes"
	"fmt"
	"strings"
	"sync/atomic"

	"github.com/datastax/go-cassandra-native-protocol/frame"
	"github.com/datastax/go-cassandra-native-protocol/message"
	"github.com/datastax/go-cassandra-native-protocol/primitive"
	"pgregory.net/rapid"

	"verif/harness/cqlgen"
	"verif/harness/fakecass"
	"verif/harness/rawcli"
	"verif/harness/wire"
)

// ---- shared machinery of the end-to-end checks (C01, C02, C04, C05, C08 ...) ----

// stmtSpec is a statement with its ground truth (from the generator's derivation).
type stmtSpec struct {
	Text    string   `json:"text"`
	Idem    bool     `json:"idempotent"`
	Planted []string `json:"planted,omitempty"`
}

type childSpec struct {
	Stmt     stmtSpec `json:"stmt"`
	Prepared bool     `json:"prepared,omitempty"`
	Unknown  bool     `json:"unknown_id,omitempty"` // prepared id the proxy never saw
}

// reqSpec is one client request together with the backend's scripted outcomes.
type reqSpec struct {
	Kind      string      `json:"kind"` // query | execute | batch
	Stmt      stmtSpec    `json:"stmt,omitempty"`
	Children  []childSpec `json:"children,omitempty"`
	BatchType int         `json:"batch_type,omitempty"`
	Graph     bool        `json:"graph,omitempty"`
	UnknownID bool        `json:"unknown_id,omitempty"` // execute: an id the proxy never saw a PREPARE for
	// Decoy (execute only): before the statement itself is PREPAREd, an idempotent SELECT is PREPAREd and the backend
	// gives both the same id - the history of PREPAREs redefines what the id means; the last PREPARE counts
	Decoy  bool               `json:"decoy,omitempty"`
	Token  string             `json:"token"`
	Script []fakecass.Outcome `json:"script"`
}

// positivelyIdempotent is the ground truth the properties refer to.
func (r *reqSpec) positivelyIdempotent(idempotentGraph bool) bool {
	if r.Graph {
		return idempotentGraph
	}
	switch r.Kind {
	case "query":
		return r.Stmt.Idem
	case "execute":
		return r.Stmt.Idem && !r.UnknownID
	case "batch":
		for _, c := range r.Children {
			if !c.Stmt.Idem || c.Unknown {
				return false
			}
		}
		return r.BatchType != 2
	}
	return false
}

var tokenCounter atomic.Int64

// nextToken returns a token that no other request of this process carries (safe for concurrent use).
func nextToken() string { return fakecass.Token(int(tokenCounter.Add(1))) }

// genStmt draws a DML (or SELECT) statement carrying token, idempotent or not as asked.
func genStmt(rt *rapid.T, token string, idem bool) stmtSpec {
	if idem && rapid.IntRange(0, 3).Draw(rt, "select") == 0 {
		return stmtSpec{Text: "SELECT * FROM ks1.t WHERE tokc = '" + token + "'", Idem: true}
	}
	for i := 0; ; i++ {
		o := cqlgen.Opts{Neutral: false, Token: token, Kind: rapid.SampledFrom([]string{"insert", "update", "delete"}).Draw(rt, "stmtkind")}
		if !idem {
			o.PlantPct, o.MaxPlant = 60, 1
		}
		s := cqlgen.Gen(rt, o)
		if idem == (len(s.Planted) == 0) && strings.Contains(s.Text(), token) {
			text := s.Text()
			if rapid.IntRange(0, 2).Draw(rt, "respell") == 0 {
				// the same statement in a generated spelling: letter case, white-space runs, comments, bare CRs (the
				// backend executes what the grammar says, whatever the proxy's lexer makes of the spelling)
				text = cqlgen.Respell(rt, s)
			}
			return stmtSpec{Text: text, Idem: idem, Planted: s.Planted}
		}
		if i > 30 { // extremely unlikely; fall back to fixed texts
			if idem {
				return stmtSpec{Text: "INSERT INTO ks1.t (tokc, v) VALUES ('" + token + "', 1)", Idem: true}
			}
			return stmtSpec{Text: "UPDATE ks1.t SET v = v + 1 WHERE tokc = '" + token + "'", Idem: false, Planted: []string{"counter:c=c+n"}}
		}
	}
}

// genReq draws a request of any kind whose ground-truth idempotency is idem.
func genReq(rt *rapid.T, idem bool, allowGraph, idempotentGraph bool) reqSpec {
	r := reqSpec{Token: nextToken()}
	kind := rapid.SampledFrom([]string{"query", "query", "execute", "execute", "batch"}).Draw(rt, "reqkind")
	if allowGraph && rapid.IntRange(0, 5).Draw(rt, "graph") == 0 && idem == idempotentGraph {
		// graph requests: the payload key decides, whatever the statement is
		r.Graph = true
		r.Kind = rapid.SampledFrom([]string{"query", "execute"}).Draw(rt, "graphkind")
		r.Stmt = genStmt(rt, r.Token, rapid.Bool().Draw(rt, "graphstmtidem"))
		return r
	}
	r.Kind = kind
	switch kind {
	case "query":
		r.Stmt = genStmt(rt, r.Token, idem)
	case "execute":
		if !idem && rapid.IntRange(0, 3).Draw(rt, "unknownid") == 0 {
			r.UnknownID = true
			r.Stmt = genStmt(rt, r.Token, true)
		} else {
			r.Stmt = genStmt(rt, r.Token, idem)
		}
	case "batch":
		n := rapid.IntRange(1, 4).Draw(rt, "nchildren")
		bad := -1
		if !idem {
			bad = rapid.IntRange(0, n-1).Draw(rt, "badchild")
		}
		for i := 0; i < n; i++ {
			ch := childSpec{Prepared: rapid.Bool().Draw(rt, "childprepared")}
			if i == bad {
				if ch.Prepared && rapid.IntRange(0, 3).Draw(rt, "childunknown") == 0 {
					ch.Unknown = true
					ch.Stmt = genStmt(rt, r.Token, true)
				} else {
					ch.Stmt = genStmt(rt, r.Token, false)
				}
			} else {
				ch.Stmt = genStmt(rt, r.Token, true)
			}
			r.Children = append(r.Children, ch)
		}
		r.BatchType = rapid.IntRange(0, 1).Draw(rt, "batchtype")
	}
	return r
}

// runner drives one client connection.
type runner struct {
	e        *env
	c        *rawcli.Client
	v        primitive.ProtocolVersion
	stream   int16
	compress bool
	prepared map[string][]byte // statement text -> id returned by the proxy
}

func newRunner(e *env, v primitive.ProtocolVersion, comp string) (*runner, error) {
	c, err := e.client(v, comp)
	if err != nil {
		return nil, err
	}
	return &runner{e: e, c: c, v: v, stream: 100, compress: comp != "", prepared: map[string][]byte{}}, nil
}

func (r *runner) nextStream() int16 {
	r.stream++
	if r.stream > 29000 {
		r.stream = 101
	}
	return r.stream
}

// prepare PREPAREs text through the proxy (once per text) and returns the id.
func (r *runner) prepare(text string) ([]byte, error) {
	if id, ok := r.prepared[text]; ok {
		return id, nil
	}
	s := r.nextStream()
	from := r.c.NumFrames()
	if err := r.c.SendMsg(r.v, s, &message.Prepare{Query: text}, r.compress); err != nil {
		return nil, err
	}
	rep := r.c.WaitStream(s, from, 1, posWait)
	if rep == nil {
		return nil, fmt.Errorf("no reply to PREPARE %q", text)
	}
	b, err := r.c.Decode(rep)
	if err != nil {
		return nil, err
	}
	pr, ok := b.Message.(*message.PreparedResult)
	if !ok {
		return nil, fmt.Errorf("PREPARE answered with %T %v", b.Message, b.Message)
	}
	r.prepared[text] = pr.PreparedQueryId
	return pr.PreparedQueryId, nil
}

// prepText derives the text that is PREPAREd for a statement: the request token is
// replaced by a bind marker and a prepare-token keeps the PREPARE recognisable.
func prepText(st stmtSpec, token string) string {
	return strings.ReplaceAll(st.Text, token, prepTokenOf(token))
}

// prepTokenOf maps a request token to the distinct token its PREPARE carries.
func prepTokenOf(token string) string { return "tk5" + token[3:] }

// buildFrame encodes a request with the reference codec; graph adds the custom payload
// key that marks DSE graph requests.
func buildFrame(v primitive.ProtocolVersion, stream int16, msg message.Message, graph bool, comp string, compress bool) (*wire.Frame, error) {
	b := &frame.Body{Message: msg}
	if graph {
		b.CustomPayload = map[string][]byte{"graph-source": []byte("g")}
	}
	plain, flags, err := wire.EncodeBody(v, b, false)
	if err != nil {
		return nil, err
	}
	alg := ""
	if compress {
		alg = comp
	}
	return wire.Build(v, false, flags, stream, msg.GetOpCode(), plain, alg)
}

// send registers the script and sends the request; returns the stream used.
func (r *runner) send(q *reqSpec) (int16, error) {
	var msg message.Message
	opts := func() *message.QueryOptions {
		return &message.QueryOptions{Consistency: primitive.ConsistencyLevelLocalQuorum, PositionalValues: []*primitive.Value{primitive.NewValue([]byte(q.Token))}}
	}
	switch q.Kind {
	case "query":
		msg = &message.Query{Query: q.Stmt.Text, Options: &message.QueryOptions{Consistency: primitive.ConsistencyLevelLocalQuorum}}
	case "execute":
		var id []byte
		if q.UnknownID {
			id = []byte("unknown-id-" + q.Token[2:7])
		} else {
			var err error
			if id, err = r.prepare(prepText(q.Stmt, q.Token)); err != nil {
				return 0, err
			}
		}
		ex := &message.Execute{QueryId: id, Options: opts()}
		if r.v.SupportsResultMetadataId() {
			ex.ResultMetadataId = []byte{0xAB, 0xCD}
		}
		msg = ex
	case "batch":
		b := &message.Batch{Type: primitive.BatchType(q.BatchType), Consistency: primitive.ConsistencyLevelLocalQuorum}
		for _, ch := range q.Children {
			if ch.Prepared {
				var id []byte
				if ch.Unknown {
					id = []byte("unknown-id-" + q.Token[2:7])
				} else {
					var err error
					if id, err = r.prepare(prepText(ch.Stmt, q.Token)); err != nil {
						return 0, err
					}
				}
				b.Children = append(b.Children, &message.BatchChild{Id: id, Values: []*primitive.Value{primitive.NewValue([]byte(q.Token))}})
			} else {
				b.Children = append(b.Children, &message.BatchChild{Query: ch.Stmt.Text})
			}
		}
		msg = b
	default:
		return 0, fmt.Errorf("unknown request kind %q", q.Kind)
	}
	r.e.Cluster.Script(q.Token, q.Script)
	s := r.nextStream()
	f, err := buildFrame(r.v, s, msg, q.Graph, r.c.Comp, r.compress)
	if err != nil {
		return 0, err
	}
	return s, r.c.SendFrame(f)
}

// describe a reply for messages and oracles
type replyInfo struct {
	Op      primitive.OpCode
	IsError bool
	Code    primitive.ErrorCode
	Text    string
	Echo    *echoInfo
	Msg     message.Message
}

func (r *runner) reply(rc *rawcli.Recv) (*replyInfo, error) {
	b, err := r.c.Decode(rc)
	if err != nil {
		return nil, err
	}
	ri := &replyInfo{Op: primitive.OpCode(rc.F.Op), Msg: b.Message}
	if em, ok := b.Message.(message.Error); ok {
		ri.IsError, ri.Code, ri.Text = true, em.GetErrorCode(), em.GetErrorMessage()
	}
	if e, ok := parseEcho(b.Message); ok {
		ri.Echo = e
	}
	return ri, nil
}

func (ri *replyInfo) String() string {
	if ri == nil {
		return "<none>"
	}
	if ri.IsError {
		return fmt.Sprintf("ERROR(0x%04x %q)", int(ri.Code), ri.Text)
	}
	if ri.Echo != nil {
		return fmt.Sprintf("RESULT(echo tok=%s host=%d attempt=%d)", ri.Echo.Tok, ri.Echo.Host, ri.Echo.Attempt)
	}
	return fmt.Sprintf("%T", ri.Msg)
}

func errCodeOf(kind string) primitive.ErrorCode {
	switch kind {
	case "unavailable":
		return primitive.ErrorCodeUnavailable
	case "read_timeout":
		return primitive.ErrorCodeReadTimeout
	case "write_timeout":
		return primitive.ErrorCodeWriteTimeout
	case "bootstrapping":
		return primitive.ErrorCodeIsBootstrapping
	case "overloaded":
		return primitive.ErrorCodeOverloaded
	case "server_error":
		return primitive.ErrorCodeServerError
	case "truncate":
		return primitive.ErrorCodeTruncateError
	case "read_failure":
		return primitive.ErrorCodeReadFailure
	case "write_failure":
		return primitive.ErrorCodeWriteFailure
	case "unprepared":
		return primitive.ErrorCodeUnprepared
	case "invalid":
		return primitive.ErrorCodeInvalid
	case "syntax":
		return primitive.ErrorCodeSyntaxError
	case "unauthorized":
		return primitive.ErrorCodeUnauthorized
	case "already_exists":
		return primitive.ErrorCodeAlreadyExists
	case "function_failure":
		return primitive.ErrorCodeFunctionFailure
	case "config_error":
		return primitive.ErrorCodeConfigError
	case "protocol_error":
		return primitive.ErrorCodeProtocolError
	}
	return primitive.ErrorCode(0xFFFF)
}

// genOutcome draws one backend outcome; terminalOnly restricts to replies (no connection loss).
var errKinds = []string{"unavailable", "read_timeout", "write_timeout", "bootstrapping", "overloaded", "server_error", "truncate",
	"read_failure", "write_failure", "invalid", "syntax", "unauthorized", "already_exists", "function_failure", "config_error"}

var writeTypes = []string{"simple", "batch", "unlogged_batch", "counter", "batch_log", "batch_log", "cas", "view", "cdc"}

func genOutcome(rt *rapid.T, allowDrop bool) fakecass.Outcome {
	c := rapid.IntRange(0, 99).Draw(rt, "outcome")
	switch {
	case c < 20:
		return fakecass.Outcome{Kind: "ok"}
	case c < 30 && allowDrop:
		return fakecass.Outcome{Kind: "drop"}
	case c < 45:
		return fakecass.Outcome{Kind: "read_timeout", Received: int32(rapid.IntRange(0, 3).Draw(rt, "received")), BlockFor: int32(rapid.IntRange(0, 3).Draw(rt, "blockfor")), DataPresent: rapid.Bool().Draw(rt, "datapresent")}
	case c < 60:
		return fakecass.Outcome{Kind: "write_timeout", WriteType: writeTypes[rapid.IntRange(0, len(writeTypes)-1).Draw(rt, "writetype")]}
	default:
		return fakecass.Outcome{Kind: errKinds[rapid.IntRange(0, len(errKinds)-1).Draw(rt, "errkind")]}
	}
}

// decodeAttempt decodes a request received by the fake backend with the reference codec.
func decodeAttempt(a *fakecass.Attempt) (*frame.Body, error) {
	hdr := &frame.Header{Version: primitive.ProtocolVersion(a.Version & 0x7f), Flags: primitive.HeaderFlag(a.Flags &^ wire.FlagCompressed), OpCode: primitive.OpCode(a.Op), BodyLength: int32(len(a.Plain))}
	return wire.Ref.DecodeBody(hdr, bytes.NewReader(a.Plain))
}
