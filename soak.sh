#!/bin/bash
# usage: soak.sh <seed>...   run every quick check on the unchanged tree at the given VERIF_SEED values; print non-OK outcomes
cd /verif
for seed in "$@"; do
  for i in $(seq -w 1 20); do
    id=C$i
    out=$(VERIF_SEED=$seed ./run $id quick 2>&1); rc=$?
    if [ $rc -ne 0 ]; then echo "seed=$seed $id rc=$rc"; echo "$out" | grep -E "^(VIOLATION|INCONCLUSIVE)" | cut -c1-600; mkdir -p /tmp/soak; cp -r out/$id /tmp/soak/$id-seed$seed 2>/dev/null; fi
  done
  echo "seed=$seed done"
done
