package checks

import (
	"bytes"
	"context"
	"encoding/json"
	"fmt"
	"net"
	"os"
	"runtime/pprof"
	"strings"
	"sync"
	"sync/atomic"
	"time"

	"github.com/datastax/cql-proxy/proxy"
	"github.com/datastax/cql-proxy/proxycore"
	"github.com/datastax/go-cassandra-native-protocol/message"
	"github.com/datastax/go-cassandra-native-protocol/primitive"
	"go.uber.org/zap"

	"verif/harness/evid"
	"verif/harness/fakecass"
	"verif/harness/rawcli"
)

// envOpts describes one fake cluster + in-process proxy.
type envOpts struct {
	Hosts           int
	NumConns        int
	Version         primitive.ProtocolVersion // version the proxy uses towards the backend
	MaxVersion      primitive.ProtocolVersion // client-side gate
	BackendMax      primitive.ProtocolVersion
	DSE             string
	IdempotentGraph bool
	Unsupported     []primitive.ConsistencyLevel
	Override        *primitive.ConsistencyLevel
	Keyspaces       []string
	HeartBeat       time.Duration
	Idle            time.Duration
	ReconnBase      time.Duration
	ReconnMax       time.Duration
	ConnectTimeout  time.Duration
	ListenAny       bool // listen on 0.0.0.0 (clients can then reach the proxy through any loopback address)
	RPCAddr         string
	DC              string
	Tokens          []string
	Peers           []proxy.PeerConfig
	DownHosts       []int             // hosts stopped before the proxy connects (still members)
	Cluster         *fakecass.Cluster // reuse this cluster (several proxies against one backend); not closed by env.Close
	BackendDC       string
	Contact         int // index of the host used as contact point
}

type env struct {
	Cluster   *fakecass.Cluster
	Proxy     *proxy.Proxy
	Addr      string
	cancel    context.CancelFunc
	ln        net.Listener
	served    chan struct{}
	shared    bool
	clients   []*rawcli.Client
	clientsMu sync.Mutex
}

func (o *envOpts) defaults() {
	if o.Hosts == 0 {
		o.Hosts = 1
	}
	if o.NumConns == 0 {
		o.NumConns = 1
	}
	if o.Version == 0 {
		o.Version = primitive.ProtocolVersion4
	}
	if o.MaxVersion == 0 {
		o.MaxVersion = o.Version
	}
	if o.BackendMax == 0 {
		o.BackendMax = primitive.ProtocolVersionDse2
	}
	if o.HeartBeat == 0 {
		o.HeartBeat = 30 * time.Second
	}
	if o.Idle == 0 {
		o.Idle = 60 * time.Second
	}
	if o.ReconnBase == 0 {
		o.ReconnBase = 5 * time.Millisecond
	}
	if o.ReconnMax == 0 {
		o.ReconnMax = 25 * time.Millisecond
	}
	if o.ConnectTimeout == 0 {
		o.ConnectTimeout = 5 * time.Second
	}
}

func startEnv(o envOpts) (*env, error) {
	o.defaults()
	cl := o.Cluster
	if cl == nil {
		var err error
		if cl, err = fakecass.New(o.Hosts); err != nil {
			return nil, err
		}
		cl.MaxVersion = o.BackendMax
		cl.DSEVersion = o.DSE
		if o.BackendDC != "" {
			cl.DC = o.BackendDC
		}
		for _, k := range o.Keyspaces {
			cl.Keyspaces[k] = true
		}
	}
	closeCluster := func() {
		if o.Cluster == nil {
			cl.Close()
		}
	}
	for _, h := range o.DownHosts {
		cl.Host(h).Stop()
	}
	contact := o.Contact
	for contains(o.DownHosts, contact) {
		contact++
	}
	ctx, cancel := context.WithCancel(context.Background())
	cfg := proxy.Config{
		Version:           o.Version,
		MaxVersion:        o.MaxVersion,
		Resolver:          proxycore.NewResolverWithDefaultPort([]string{cl.HostIP(contact)}, cl.Port),
		ReconnectPolicy:   proxycore.NewReconnectPolicyWithDelays(o.ReconnBase, o.ReconnMax),
		NumConns:          o.NumConns,
		HeartBeatInterval: o.HeartBeat,
		IdleTimeout:       o.Idle,
		ConnectTimeout:    o.ConnectTimeout,
		IdempotentGraph:   o.IdempotentGraph,
		RPCAddr:           o.RPCAddr,
		DC:                o.DC,
		Tokens:            o.Tokens,
		Peers:             o.Peers,
	}
	if os.Getenv("VERIF_PROXYLOG") != "" {
		cfg.Logger, _ = zap.NewDevelopment()
	}
	if len(o.Unsupported) > 0 {
		cfg.UnsupportedWriteConsistencies = proxy.VerifConsistencies(o.Unsupported...)
	}
	if o.Override != nil {
		cfg.UnsupportedWriteConsistencyOverride = proxy.VerifConsistency(*o.Override)
	}
	p := proxy.NewProxy(ctx, cfg)
	if err := p.Connect(); err != nil {
		cancel()
		closeCluster()
		return nil, fmt.Errorf("proxy connect: %w", err)
	}
	laddr := "127.0.0.1:0"
	if o.ListenAny {
		laddr = "0.0.0.0:0"
	}
	ln, err := net.Listen("tcp", laddr)
	if err != nil {
		cancel()
		closeCluster()
		return nil, err
	}
	served := make(chan struct{})
	go func() { _ = p.Serve(ln); close(served) }()
	return &env{Cluster: cl, Proxy: p, Addr: ln.Addr().String(), cancel: cancel, ln: ln, served: served, shared: o.Cluster != nil}, nil
}

func contains(xs []int, x int) bool {
	for _, y := range xs {
		if y == x {
			return true
		}
	}
	return false
}

func (e *env) Close() {
	e.clientsMu.Lock()
	cs := append([]*rawcli.Client(nil), e.clients...)
	e.clientsMu.Unlock()
	for _, c := range cs {
		c.Close()
	}
	// Stop accepting first and let Serve finish the connection it may be setting up: Proxy.Close()
	// racing with a just-accepted connection dereferences a nil conn (shutdown is outside the listed
	// properties; the harness simply avoids the race).
	_ = e.ln.Close()
	select {
	case <-e.served:
	case <-time.After(2 * time.Second):
	}
	_ = e.Proxy.Close()
	e.cancel()
	if !e.shared {
		e.Cluster.Close()
	}
}

// client connects a raw client and performs STARTUP.
func (e *env) client(v primitive.ProtocolVersion, comp string) (*rawcli.Client, error) {
	c, err := rawcli.Dial(e.Addr)
	if err != nil {
		return nil, err
	}
	e.addClient(c)
	if err := c.Startup(v, comp, posWait); err != nil {
		return nil, err
	}
	return c, nil
}

// clientVia connects through the given local address of the proxy (ListenAny environments) and performs STARTUP.
func (e *env) clientVia(ip string, v primitive.ProtocolVersion, comp string) (*rawcli.Client, error) {
	_, port, _ := net.SplitHostPort(e.Addr)
	c, err := rawcli.Dial(net.JoinHostPort(ip, port))
	if err != nil {
		return nil, err
	}
	e.addClient(c)
	if err := c.Startup(v, comp, posWait); err != nil {
		return nil, err
	}
	return c, nil
}

func (e *env) rawClient() (*rawcli.Client, error) {
	c, err := rawcli.Dial(e.Addr)
	if err == nil {
		e.addClient(c)
	}
	return c, err
}

func (e *env) addClient(c *rawcli.Client) {
	e.clientsMu.Lock()
	e.clients = append(e.clients, c)
	e.clientsMu.Unlock()
}

// posWait is the bound for "a reply is owed": four orders of magnitude above the
// latency observed on the unchanged tree (sub-millisecond on loopback).
const posWait = 8 * time.Second

// ---- stall watchdog: distinguishes "the proxy did not answer" from "this machine did not run us" ----

var (
	stallOnce sync.Once
	stallMax  int64 // max gap between 1ms ticks since last reset, ns
)

func stallStart() {
	stallOnce.Do(func() {
		go func() {
			last := time.Now()
			for {
				time.Sleep(time.Millisecond)
				now := time.Now()
				gap := int64(now.Sub(last))
				for {
					old := atomic.LoadInt64(&stallMax)
					if gap <= old || atomic.CompareAndSwapInt64(&stallMax, old, gap) {
						break
					}
				}
				last = now
			}
		}()
	})
}

func stallReset() { stallStart(); atomic.StoreInt64(&stallMax, 0) }

// stalled reports whether the harness itself was not scheduled for more than a quarter of
// the deadline d since the last reset; a missed deadline then proves nothing.
func stalled(d time.Duration) bool { return time.Duration(atomic.LoadInt64(&stallMax)) > d/4 }

// inconclusive ends the process with a status the driver maps to exit 2.
func inconclusive(rec *evid.Recorder, format string, a ...interface{}) {
	fmt.Printf("INCONCLUSIVE-HARNESS: "+format+"\n", a...)
	rec.Write()
	os.Exit(3)
}

// echoInfo is what the fake backend puts in the row of a successful tokenised request.
type echoInfo struct {
	Tok     string `json:"tok"`
	Host    int    `json:"host"`
	Conn    int    `json:"conn"`
	Ks      string `json:"ks"`
	Ver     int    `json:"ver"`
	Comp    string `json:"comp"`
	Attempt int    `json:"attempt"`
}

// parseEcho extracts the echo row from a RowsResult produced by fakecass.
func parseEcho(m message.Message) (*echoInfo, bool) {
	rr, ok := m.(*message.RowsResult)
	if !ok || len(rr.Data) != 1 || len(rr.Data[0]) != 1 {
		return nil, false
	}
	var e echoInfo
	if json.Unmarshal(rr.Data[0][0], &e) != nil || e.Tok == "" {
		return nil, false
	}
	return &e, true
}

// proxyStacks renders the goroutines that are inside cql-proxy code (for diagnosing a missing reply).
func proxyStacks() string {
	var buf bytes.Buffer
	_ = pprof.Lookup("goroutine").WriteTo(&buf, 1)
	var out []string
	for _, blk := range strings.Split(buf.String(), "\n\n") {
		if strings.Contains(blk, "datastax/cql-proxy") && (strings.Contains(blk, "Lock") || strings.Contains(blk, "request") || strings.Contains(blk, "Closing")) {
			out = append(out, blk)
		}
	}
	s := strings.Join(out, "\n\n")
	if len(s) > 6000 {
		s = s[:6000] + "..."
	}
	return "proxy goroutines:\n" + s
}
