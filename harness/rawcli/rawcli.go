// Package rawcli is a raw native-protocol client: it can write arbitrary bytes and logs
// every frame the peer sends, splitting the stream by the 9-byte header only.
package rawcli

import (
	"crypto/tls"
	"fmt"
	"net"
	"sync"
	"time"

	"github.com/datastax/go-cassandra-native-protocol/frame"
	"github.com/datastax/go-cassandra-native-protocol/message"
	"github.com/datastax/go-cassandra-native-protocol/primitive"

	"verif/harness/wire"
)

type Recv struct {
	Idx int
	F   *wire.Frame
	At  time.Time
}

type Client struct {
	nc     net.Conn
	mu     sync.Mutex
	cond   *sync.Cond
	frames []*Recv
	closed bool // peer closed / read error
	rerr   error
	Comp   string // negotiated compression (for decoding replies)
	wmu    sync.Mutex
	fence  int16
	gate   sync.Mutex // held while reads are paused
}

func Dial(addr string) (*Client, error) {
	nc, err := dialTCP(addr)
	if err != nil {
		return nil, &ErrTCPConnect{err}
	}
	if tc, ok := nc.(*net.TCPConn); ok {
		tc.SetNoDelay(true)
	}
	c := &Client{nc: nc, fence: 30000}
	c.cond = sync.NewCond(&c.mu)
	go c.read()
	return c, nil
}

// dialTCP connects with a 5 s bound and tries again (twice) when the connect merely timed out: with the connection
// churn of this harness the kernel occasionally drops SYNs on loopback (TIME_WAIT bucket overflow, ListenDrops without
// ListenOverflows), which says nothing about the peer. A refused connection is reported at once.
func dialTCP(addr string) (net.Conn, error) {
	var nc net.Conn
	var err error
	for try := 0; try < 3; try++ {
		nc, err = net.DialTimeout("tcp", addr, 5*time.Second)
		if err == nil {
			return nc, nil
		}
		if ne, ok := err.(net.Error); !ok || !ne.Timeout() {
			return nil, err
		}
	}
	return nil, err
}

// ErrTCPConnect wraps a failure of the TCP connect itself (as opposed to a TLS handshake that does not complete).
type ErrTCPConnect struct{ Err error }

func (e *ErrTCPConnect) Error() string { return "tcp connect: " + e.Err.Error() }
func (e *ErrTCPConnect) Unwrap() error { return e.Err }

// DialTLS connects through TLS (TCP connect and handshake are bounded by 5 s each).
func DialTLS(addr string, cfg *tls.Config) (*Client, error) {
	raw, err := dialTCP(addr)
	if err != nil {
		return nil, &ErrTCPConnect{err}
	}
	nc := tls.Client(raw, cfg)
	_ = raw.SetDeadline(time.Now().Add(5 * time.Second))
	if err := nc.Handshake(); err != nil {
		raw.Close()
		return nil, fmt.Errorf("tls handshake: %w", err)
	}
	_ = raw.SetDeadline(time.Time{})
	c := &Client{nc: nc, fence: 30000}
	c.cond = sync.NewCond(&c.mu)
	go c.read()
	return c, nil
}

// PauseReads stops draining the socket (a slow consumer); ResumeReads continues.
func (c *Client) PauseReads()  { c.gate.Lock() }
func (c *Client) ResumeReads() { c.gate.Unlock() }

func (c *Client) read() {
	for {
		c.gate.Lock()
		c.gate.Unlock()
		f, err := wire.Read(c.nc)
		c.mu.Lock()
		if err != nil {
			c.closed, c.rerr = true, err
			c.cond.Broadcast()
			c.mu.Unlock()
			return
		}
		c.frames = append(c.frames, &Recv{Idx: len(c.frames), F: f, At: time.Now()})
		c.cond.Broadcast()
		c.mu.Unlock()
	}
}

func (c *Client) Close() { c.nc.Close() }

// HalfClose shuts the write side down (the peer sees EOF) but keeps reading.
func (c *Client) HalfClose() {
	if tc, ok := c.nc.(*net.TCPConn); ok {
		tc.CloseWrite()
	}
}

func (c *Client) Send(b []byte) error {
	c.wmu.Lock()
	defer c.wmu.Unlock()
	c.nc.SetWriteDeadline(time.Now().Add(20 * time.Second))
	_, err := c.nc.Write(b)
	return err
}

func (c *Client) SendFrame(f *wire.Frame) error { return c.Send(f.Bytes()) }

// SendMsg encodes msg with the reference codec (plain, or compressed with the negotiated
// algorithm when compress is set) and sends it.
func (c *Client) SendMsg(v primitive.ProtocolVersion, stream int16, msg message.Message, compress bool) error {
	alg := ""
	if compress {
		alg = c.Comp
	}
	f, err := wire.Msg(v, false, stream, msg, alg)
	if err != nil {
		return err
	}
	return c.SendFrame(f)
}

func (c *Client) Frames() []*Recv {
	c.mu.Lock()
	defer c.mu.Unlock()
	return append([]*Recv(nil), c.frames...)
}

func (c *Client) NumFrames() int { c.mu.Lock(); defer c.mu.Unlock(); return len(c.frames) }

func (c *Client) PeerClosed() bool { c.mu.Lock(); defer c.mu.Unlock(); return c.closed }

func (c *Client) waitLocked(deadline time.Time) {
	t := time.AfterFunc(time.Until(deadline)+time.Millisecond, func() { c.mu.Lock(); c.cond.Broadcast(); c.mu.Unlock() })
	c.cond.Wait()
	t.Stop()
}

// WaitN waits until at least n frames have arrived in total (or the peer closed).
func (c *Client) WaitN(n int, d time.Duration) bool {
	deadline := time.Now().Add(d)
	c.mu.Lock()
	defer c.mu.Unlock()
	for len(c.frames) < n && !c.closed {
		if time.Now().After(deadline) {
			return false
		}
		c.waitLocked(deadline)
	}
	return len(c.frames) >= n
}

// WaitStream waits for the k-th (1-based) frame on a stream among frames with index >= from.
func (c *Client) WaitStream(stream int16, from, k int, d time.Duration) *Recv {
	deadline := time.Now().Add(d)
	c.mu.Lock()
	defer c.mu.Unlock()
	for {
		n := 0
		for i := from; i < len(c.frames); i++ {
			if c.frames[i].F.Stream == stream {
				n++
				if n == k {
					return c.frames[i]
				}
			}
		}
		if c.closed || time.Now().After(deadline) {
			return nil
		}
		c.waitLocked(deadline)
	}
}

// WaitClosed waits until the peer closed the connection.
func (c *Client) WaitClosed(d time.Duration) bool {
	deadline := time.Now().Add(d)
	c.mu.Lock()
	defer c.mu.Unlock()
	for !c.closed {
		if time.Now().After(deadline) {
			return false
		}
		c.waitLocked(deadline)
	}
	return true
}

// Quiesce waits until no frame has arrived for quiet (bounded by max).
func (c *Client) Quiesce(quiet, max time.Duration) {
	end := time.Now().Add(max)
	for {
		c.mu.Lock()
		n := len(c.frames)
		last := time.Time{}
		if n > 0 {
			last = c.frames[n-1].At
		}
		c.mu.Unlock()
		now := time.Now()
		if now.After(end) {
			return
		}
		idle := now.Sub(last)
		if n == 0 || idle >= quiet {
			// make sure a full quiet period passes while we watch
			time.Sleep(quiet)
			if c.NumFrames() == n {
				return
			}
			continue
		}
		time.Sleep(quiet - idle)
	}
}

// Fence sends an OPTIONS on a reserved stream and waits for its reply. Everything the
// proxy queued for this client before handling the OPTIONS is ahead of the reply.
func (c *Client) Fence(v primitive.ProtocolVersion, d time.Duration) (*Recv, error) {
	c.mu.Lock()
	c.fence++
	if c.fence > 32700 {
		c.fence = 30001
	}
	s := c.fence
	from := len(c.frames)
	c.mu.Unlock()
	if err := c.SendMsg(v, s, &message.Options{}, false); err != nil {
		return nil, err
	}
	r := c.WaitStream(s, from, 1, d)
	if r == nil {
		return nil, fmt.Errorf("no reply to fence OPTIONS on stream %d within %v (peer closed=%v)", s, d, c.PeerClosed())
	}
	return r, nil
}

// Startup performs OPTIONS-less handshake: STARTUP (optionally with COMPRESSION) -> READY.
func (c *Client) Startup(v primitive.ProtocolVersion, comp string, d time.Duration) error {
	opts := map[string]string{"CQL_VERSION": "3.0.0"}
	if comp != "" {
		opts["COMPRESSION"] = comp
	}
	from := c.NumFrames()
	if err := c.SendMsg(v, 0, &message.Startup{Options: opts}, false); err != nil {
		return err
	}
	r := c.WaitStream(0, from, 1, d)
	if r == nil {
		return fmt.Errorf("no reply to STARTUP within %v", d)
	}
	if primitive.OpCode(r.F.Op) != primitive.OpCodeReady {
		return fmt.Errorf("STARTUP answered with opcode %d", r.F.Op)
	}
	c.Comp = comp
	return nil
}

// Decode decodes a received frame with the reference codec.
func (c *Client) Decode(r *Recv) (*frame.Body, error) { return r.F.Decode(c.Comp) }
