package checks

import (
	"fmt"
	"strings"
	"sync"
	"testing"
	"time"

	"github.com/datastax/go-cassandra-native-protocol/message"
	"github.com/datastax/go-cassandra-native-protocol/primitive"

	"pgregory.net/rapid"

	"verif/harness/evid"
	"verif/harness/fakecass"
	"verif/harness/rawcli"
	"verif/harness/wire"
)

// ---- C01: exactly one response per client request, on the request's own stream ----

var c01Locals = []string{"options", "system_local", "system_peers", "system_bad_column", "system_json", "system_func", "use", "use_missing", "prepare_system", "prepare_system_bad_column", "prepare_system_json", "prepare_system_func", "prepare_use", "register",
	"startup_again", "startup_badcomp", "auth_response", "bad_version"}

func genStormScript(rt *rapid.T, maxLen int, parkPct, dropPct int) []fakecass.Outcome {
	n := rapid.IntRange(1, maxLen).Draw(rt, "scriptlen")
	var out []fakecass.Outcome
	for i := 0; i < n; i++ {
		c := rapid.IntRange(0, 99).Draw(rt, "stormoutcome")
		switch {
		case c < parkPct:
			out = append(out, fakecass.Outcome{Kind: rapid.SampledFrom([]string{"hold", "hold", "hold", "silence"}).Draw(rt, "park")})
		case c < parkPct+dropPct:
			out = append(out, fakecass.Outcome{Kind: rapid.SampledFrom([]string{"drop", "drop", "reply_drop"}).Draw(rt, "dropkind")})
		default:
			out = append(out, genOutcome(rt, false))
		}
	}
	return out
}

func genStormSteps(rt *rapid.T, hosts, max int) []stormStep {
	n := rapid.IntRange(0, max).Draw(rt, "nsteps")
	var out []stormStep
	for i := 0; i < n; i++ {
		op := rapid.SampledFrom([]string{"release", "release", "release_all", "drop_conn", "drop_conn", "drop_host", "drop_two", "drop_all", "wait_reconnect"}).Draw(rt, "stepop")
		out = append(out, stormStep{Op: op, Token: rapid.IntRange(0, 200).Draw(rt, "steptoken"), Host: rapid.IntRange(0, hosts-1).Draw(rt, "stephost"),
			Host2: rapid.IntRange(0, hosts-1).Draw(rt, "stephost2"), Conn: rapid.IntRange(0, 3).Draw(rt, "stepconn")})
	}
	return out
}

// stormFastIdle turns one case in seven into a fast-idle case whose schedule has 1..2 steps that make the proxy close
// backend connections itself.
func stormFastIdle(rt *rapid.T, c *stormCase) {
	if rapid.IntRange(0, 6).Draw(rt, "fastidle") != 0 {
		return
	}
	c.FastIdle = true
	n := rapid.IntRange(1, 2).Draw(rt, "nproxycloses")
	for i := 0; i < n; i++ {
		st := stormStep{Op: rapid.SampledFrom([]string{"silence_host", "silence_host", "remove_host"}).Draw(rt, "closeop"), Host: rapid.IntRange(0, c.Hosts-1).Draw(rt, "closehost")}
		at := rapid.IntRange(0, len(c.Steps)).Draw(rt, "closeat")
		c.Steps = append(c.Steps[:at], append([]stormStep{st}, c.Steps[at:]...)...)
	}
}

func c01Gen(rt *rapid.T) stormCase {
	c := stormCase{Hosts: rapid.IntRange(1, 4).Draw(rt, "hosts"), Conns: rapid.IntRange(1, 2).Draw(rt, "conns"), IdempotentGraph: rapid.Bool().Draw(rt, "idemgraph")}
	maxReq := evid.Pick(25, 60)
	nc := rapid.IntRange(1, 4).Draw(rt, "nclients")
	for i := 0; i < nc; i++ {
		sc := stormClient{Version: rapid.SampledFrom([]int{4, 4, 4, 3}).Draw(rt, "cversion"), Comp: rapid.SampledFrom([]string{"", "", "lz4", "snappy"}).Draw(rt, "ccomp")}
		nq := rapid.IntRange(1, maxReq).Draw(rt, "nreq")
		for j := 0; j < nq; j++ {
			if rapid.IntRange(0, 5).Draw(rt, "local") == 0 {
				sc.Reqs = append(sc.Reqs, stormReq{Local: c01Locals[rapid.IntRange(0, len(c01Locals)-1).Draw(rt, "localkind")], reqSpec: reqSpec{Token: nextToken()}})
				continue
			}
			idem := rapid.IntRange(0, 2).Draw(rt, "idem") > 0
			q := genReq(rt, idem, sc.Version >= 4, c.IdempotentGraph)
			q.Script = genStormScript(rt, 5, 18, 12)
			sc.Reqs = append(sc.Reqs, stormReq{reqSpec: q})
		}
		c.Clients = append(c.Clients, sc)
	}
	c.Steps = genStormSteps(rt, c.Hosts, 6)
	c.Warn = rapid.IntRange(0, 3).Draw(rt, "backendwarns") == 0
	stormFastIdle(rt, &c)
	return c
}

func stormClassify(c *stormCase) (labels []string, nreq, retries, parks, drops int) {
	for _, sc := range c.Clients {
		labels = append(labels, "client:v"+fmt.Sprint(sc.Version)+"/"+map[bool]string{true: sc.Comp, false: "plain"}[sc.Comp != ""])
		for _, q := range sc.Reqs {
			nreq++
			if q.Local != "" {
				labels = append(labels, "local:"+q.Local)
				continue
			}
			labels = append(labels, "req:"+q.Kind)
			if len(q.Script) >= 2 {
				retries++
			}
			for _, o := range q.Script {
				labels = append(labels, "outcome:"+o.Kind)
				switch o.Kind {
				case "hold", "silence":
					parks++
				case "drop", "reply_drop":
					drops++
				}
			}
		}
	}
	for _, st := range c.Steps {
		labels = append(labels, "step:"+st.Op)
		if strings.HasPrefix(st.Op, "drop") || st.Op == "silence_host" || st.Op == "remove_host" {
			drops++
		}
	}
	return
}

func stormKey(c *stormCase) string {
	var sb strings.Builder
	fmt.Fprintf(&sb, "%d/%d|", c.Hosts, c.Conns)
	for _, sc := range c.Clients {
		fmt.Fprintf(&sb, "v%d%s:", sc.Version, sc.Comp)
		for _, q := range sc.Reqs {
			fmt.Fprintf(&sb, "%s%s%v;", q.Kind, q.Local, q.Script)
		}
	}
	fmt.Fprintf(&sb, "|%v", c.Steps)
	return sb.String()
}

// stormSample trims a case to a readable size for the evidence file.
func stormSample(c stormCase) stormCase {
	out := c
	out.Clients = nil
	for _, sc := range c.Clients {
		if len(sc.Reqs) > 3 {
			sc.Reqs = sc.Reqs[:3]
		}
		out.Clients = append(out.Clients, sc)
	}
	if len(out.Clients) > 2 {
		out.Clients = out.Clients[:2]
	}
	return out
}

func c01Check(rec *evid.Recorder) func(stormCase) *evid.Fail {
	return func(c stormCase) *evid.Fail {
		res, f := runStorm(&c, rec)
		if f != nil {
			if strings.HasPrefix(f.Sig, "harness-") {
				if f.Sig == "harness-stall" {
					inconclusive(rec, "%s", f.Msg)
				}
				return f
			}
			return f
		}
		return oracleOneReply(res)
	}
}

// flood: one slow consumer pipelining thousands of requests (more than the proxy's
// per-connection write queue holds) before it starts reading.
type c01Flood struct {
	N       int    `json:"n"`
	Mix     int    `json:"forwarded_every"` // every Mix-th request is forwarded, the others are OPTIONS
	Comp    string `json:"comp,omitempty"`
	PauseMs int    `json:"pause_ms"`
	// Saturate: the client reads normally and everything is forwarded to the single connection of a single host, so
	// that more requests are in flight than the connection has stream ids (they are freed and re-taken at full speed)
	Saturate bool `json:"saturate,omitempty"`
}

func c01FloodCheck(c c01Flood) *evid.Fail {
	hosts := 2
	if c.Saturate {
		hosts = 1
	}
	e, err := startEnv(envOpts{Hosts: hosts, NumConns: 1, Keyspaces: []string{"ks1"}})
	if err != nil {
		return evid.Failf("harness-env", "%v", err)
	}
	defer e.Close()
	r, err := newRunner(e, 4, c.Comp)
	if err != nil {
		return evid.Failf("harness-client", "%v", err)
	}
	base := r.c.NumFrames()
	if !c.Saturate {
		r.c.PauseReads()
	}
	resumed := c.Saturate
	defer func() {
		if !resumed {
			r.c.ResumeReads()
		}
	}()
	var buf []byte
	for i := 0; i < c.N; i++ {
		s := int16(i + 1)
		if c.Mix > 0 && i%c.Mix == 0 {
			q := reqSpec{Kind: "query", Token: nextToken()}
			q.Stmt = stmtSpec{Text: "SELECT * FROM ks1.t WHERE tokc = '" + q.Token + "'", Idem: true}
			f, err := buildFrame(4, s, &message.Query{Query: q.Stmt.Text, Options: &message.QueryOptions{Consistency: primitive.ConsistencyLevelOne}}, false, r.c.Comp, c.Comp != "")
			if err != nil {
				return evid.Failf("harness-send", "%v", err)
			}
			buf = append(buf, f.Bytes()...)
		} else {
			f, _ := wire.Msg(4, false, s, &message.Options{}, "")
			buf = append(buf, f.Bytes()...)
		}
	}
	if err := r.c.Send(buf); err != nil {
		return evid.Failf("harness-send", "%v", err)
	}
	if !c.Saturate {
		time.Sleep(time.Duration(c.PauseMs) * time.Millisecond) // the consumer is slow; only widens the explored states
		r.c.ResumeReads()
		resumed = true
	}
	stallReset()
	if !r.c.WaitN(base+c.N, posWait) {
		got := r.c.NumFrames() - base
		if stalled(posWait) {
			return evid.Failf("harness-stall", "stalled")
		}
		if r.c.PeerClosed() {
			return evid.Failf("flood-closed", "proxy closed the connection of a slow consumer after %d of %d responses", got, c.N)
		}
		return evid.Failf("no-reply:flood", "slow consumer pipelined %d requests but only %d responses arrived", c.N, got)
	}
	_, _ = r.c.Fence(4, posWait)
	r.c.Quiesce(8*time.Millisecond, 200*time.Millisecond)
	count := map[int16]int{}
	for _, f := range r.c.Frames()[base:] {
		if f.F.Stream < 30000 {
			count[f.F.Stream]++
		}
	}
	for i := 0; i < c.N; i++ {
		if n := count[int16(i+1)]; n != 1 {
			return evid.Failf(map[bool]string{true: "no-reply:flood", false: "two-replies:flood"}[n == 0], "stream %d got %d responses (of %d pipelined requests)", i+1, n, c.N)
		}
	}
	return nil
}

// exhaust-unprepared: nearly every backend stream id of the only connection is taken by held requests while a client
// executes a prepared statement the host has forgotten and other clients keep sending. The proxy's re-PREPARE then
// competes for the one free stream id with the other clients' requests and sometimes cannot be sent. Whatever happens,
// each EXECUTE is owed exactly one answer.
type c01Exhaust struct {
	Held     int `json:"held"`     // requests parked at the backend (of 2048 stream ids)
	Executes int `json:"executes"` // EXECUTEs of a forgotten statement, one after the other
	Hammer   int `json:"hammer_clients"`
	Hosts    int `json:"hosts,omitempty"` // 0 = 1; C08's variant also uses 2 (only host 0 is exhausted)
}

func c01ExhaustCheck(c c01Exhaust) *evid.Fail { return exhaustRun(c, nil) }

// exhaustRun: onReply (optional) inspects the answer to every EXECUTE (C08's oracle).
func exhaustRun(c c01Exhaust, onReply func(k int, r *rawcli.Recv, trace string) *evid.Fail) *evid.Fail {
	nh := c.Hosts
	if nh == 0 {
		nh = 1
	}
	e, err := startEnv(envOpts{Hosts: nh, NumConns: 1, Keyspaces: []string{"ks1"}, HeartBeat: time.Hour, Idle: 2 * time.Hour})
	if err != nil {
		return evid.Failf("harness-env", "%v", err)
	}
	defer e.Close()
	e.Cluster.UnpreparedAuto = true
	holder, err := e.client(4, "")
	if err != nil {
		return evid.Failf("harness-client", "%v", err)
	}
	ex, err := newRunner(e, 4, "")
	if err != nil {
		return evid.Failf("harness-client", "%v", err)
	}
	ptok := nextToken()
	id, err := ex.prepare("SELECT * FROM ks1.t WHERE k = ? AND tag = '" + prepTokenOf(ptok) + "'")
	if err != nil {
		return evid.Failf("harness-prepare", "%v", err)
	}
	// park c.Held requests
	var buf []byte
	total := c.Held * nh // consecutive plans alternate between the hosts, so each host ends up with c.Held parked requests
	for i := 0; i < total; i++ {
		tok := nextToken()
		e.Cluster.Script(tok, []fakecass.Outcome{{Kind: "hold"}})
		buf = append(buf, c02Query(4, int16(i), tok, "")...)
	}
	if err := holder.Send(buf); err != nil {
		return evid.Failf("harness-send", "%v", err)
	}
	stallReset()
	for deadline := time.Now().Add(posWait); len(e.Cluster.HeldTokens()) < total; time.Sleep(time.Millisecond) {
		if time.Now().After(deadline) {
			if stalled(posWait) {
				return evid.Failf("harness-stall", "stalled")
			}
			return evid.Failf("harness-hold", "only %d of %d requests parked", len(e.Cluster.HeldTokens()), total)
		}
	}
	// other clients keep the remaining stream ids busy
	stop := make(chan struct{})
	var wg sync.WaitGroup
	for h := 0; h < c.Hammer; h++ {
		hc, err := e.client(4, "")
		if err != nil {
			close(stop)
			return evid.Failf("harness-client", "%v", err)
		}
		wg.Add(1)
		go func(hc *rawcli.Client) {
			defer wg.Done()
			s := int16(0)
			for {
				select {
				case <-stop:
					return
				default:
				}
				var b []byte
				for k := 0; k < 8; k++ {
					s = (s + 1) % 20000
					b = append(b, c02Query(4, s, nextToken(), "")...)
				}
				from := hc.NumFrames()
				if hc.Send(b) != nil {
					return
				}
				hc.WaitN(from+8, time.Second)
			}
		}(hc)
	}
	defer func() { close(stop); wg.Wait(); e.Cluster.ReleaseAll() }()
	for k := 0; k < c.Executes; k++ {
		for hi := 0; hi < nh; hi++ {
			e.Cluster.Host(hi).Forget()
		}
		tok := nextToken()
		s := ex.nextStream()
		from := ex.c.NumFrames()
		_ = ex.c.SendMsg(4, s, &message.Execute{QueryId: id, Options: &message.QueryOptions{Consistency: primitive.ConsistencyLevelOne, PositionalValues: []*primitive.Value{primitive.NewValue([]byte(tok))}}}, false)
		stallReset()
		r := ex.c.WaitStream(s, from, 1, posWait)
		if r != nil && onReply != nil {
			if f := onReply(k, r, traceString(e.Cluster.Attempts(tok))); f != nil {
				return f
			}
		}
		if r == nil {
			if stalled(posWait) {
				return evid.Failf("harness-stall", "stalled")
			}
			return evid.Failf("no-reply:exhaust-unprepared", "EXECUTE %d of a statement the host had forgotten was never answered while %d of 2048 backend stream ids were held and %d other clients kept sending; backend saw [%s]", k, c.Held, c.Hammer, traceString(e.Cluster.Attempts(tok)))
		}
	}
	_, _ = ex.c.Fence(4, posWait)
	ex.c.Quiesce(5*time.Millisecond, 100*time.Millisecond)
	per := map[int16]int{}
	for _, fr := range ex.c.Frames() {
		per[fr.F.Stream]++
	}
	for st, n := range per {
		if n > 1 && st < 30000 && st > 100 {
			return evid.Failf("two-replies:exhaust-unprepared", "stream %d got %d responses", st, n)
		}
	}
	return nil
}

func TestC01(t *testing.T) {
	rec := evid.New("C01", "fault_enumeration",
		"1..4 clients (v3/v4, none/lz4/snappy) pipelining up to 25 (thorough 60) requests each - forwarded QUERY/EXECUTE/BATCH of both idempotency classes and locally answered frames - against 1..4 hosts x 1..2 connections whose per-attempt outcomes are scripted (every error kind, hold, silence, drop before/after reply) plus a schedule of releases and single/simultaneous connection drops; "+
			"oracle: per client the multiset of response stream ids equals the multiset of request stream ids, no stray frame (positive wait with stall watchdog, then OPTIONS fence + socket quiescence); "+
			"non-trivial = a request with >=2 scripted attempts or a connection drop while requests are parked; distinct by (shape, request kinds, scripts, schedule)")
	defer finish(t, rec)
	rec.SetJournalAll(true)
	rec.Assume("stream ids are unique per client while in flight", "a client connection closed by the proxy ends the obligation for its requests (property: 'as long as the client stays connected')",
		"'never two' is decided after an OPTIONS fence and 8ms of socket silence: a duplicate arriving later than that would be missed (never a false alarm)")
	check := c01Check(rec)
	runProp(t, rec, "storm", perShard(evid.Pick(1500, 60000)), func(rt *rapid.T) stormCase {
		c := c01Gen(rt)
		labels, nreq, retries, parks, drops := stormClassify(&c)
		key := ""
		if retries > 0 || (parks > 0 && drops > 0) {
			key = stormKey(&c)
		}
		rec.Case(key, labels...)
		rec.ExtraAdd("requests_sent", int64(nreq))
		rec.Sample(stormSample(c))
		return c
	}, check)

	runProp(t, rec, "exhaust-unprepared", perShard(evid.Pick(8, 200)), func(rt *rapid.T) c01Exhaust {
		c := c01Exhaust{Held: rapid.SampledFrom([]int{2040, 2044, 2046, 2047}).Draw(rt, "held"), Executes: rapid.IntRange(10, 40).Draw(rt, "executes"), Hammer: rapid.IntRange(1, 3).Draw(rt, "hammer")}
		rec.Case("exhaust:"+js(c), "exhaust-unprepared")
		rec.Sample(c)
		return c
	}, c01ExhaustCheck)

	runProp(t, rec, "flood", perShard(evid.Pick(64, 1600)), func(rt *rapid.T) c01Flood {
		c := c01Flood{N: rapid.IntRange(1100, 6000).Draw(rt, "n"), Mix: rapid.SampledFrom([]int{0, 1, 2, 7}).Draw(rt, "mix"),
			Comp: rapid.SampledFrom([]string{"", "lz4"}).Draw(rt, "comp"), PauseMs: rapid.IntRange(0, 40).Draw(rt, "pause")}
		if rapid.IntRange(0, 1).Draw(rt, "saturate") == 0 {
			c = c01Flood{N: rapid.IntRange(6000, 14000).Draw(rt, "nsat"), Mix: 1, Saturate: true}
		}
		rec.Case("flood:"+js(c), map[bool]string{true: "flood:saturated-stream-ids", false: "flood"}[c.Saturate])
		rec.ExtraAdd("requests_sent", int64(c.N))
		return c
	}, c01FloodCheck)
}
