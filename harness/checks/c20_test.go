package checks

import (
	"fmt"
	"net"
	"os"
	"os/exec"
	"path/filepath"
	"regexp"
	"runtime"
	"sort"
	"strings"
	"sync"
	"sync/atomic"
	"syscall"
	"testing"
	"time"

	"github.com/datastax/go-cassandra-native-protocol/message"
	"github.com/datastax/go-cassandra-native-protocol/primitive"
	"pgregory.net/rapid"

	"verif/harness/evid"
	"verif/harness/fakecass"
	"verif/harness/rawcli"
	"verif/harness/wire"
)

// ---- C20: configuration values are honoured as documented and bad configurations refused ----

// ---- the real binary as a subprocess ----

type proc struct {
	cmd    *exec.Cmd
	out    *syncBuf
	done   chan struct{}
	err    error
	bind   string
	http   string
	tmpDir string
}

// syncBuf collects the output of a child process in a file. The child writes to the file descriptor directly: with a
// pipe, a harness that is slow to drain it (a loaded machine) blocks the child inside its logger, and a proxy that is
// stuck writing a log line looks exactly like a proxy that has stopped serving.
type syncBuf struct{ f *os.File }

func newSyncBuf() *syncBuf {
	dir := os.Getenv("VERIF_OUTDIR")
	if dir == "" {
		dir = os.TempDir()
	}
	f, err := os.CreateTemp(dir, "child-*.log")
	if err != nil {
		f, _ = os.CreateTemp("", "child-*.log")
	}
	return &syncBuf{f: f}
}

func (s *syncBuf) File() *os.File { return s.f }

func (s *syncBuf) String() string {
	b, _ := os.ReadFile(s.f.Name())
	return string(b)
}

func (s *syncBuf) Close() {
	_ = s.f.Close()
	_ = os.Remove(s.f.Name())
}

// startChild starts cmd so that the kernel kills it when this test process dies (Pdeathsig), whatever the reason -
// otherwise a shard that is killed or exits early leaves proxies behind that spin on their reconnect timers and load
// the machine for every later run. The parent-death signal is tied to the OS thread that forked the child, so all
// children are forked from one goroutine that is locked to its thread and never ends.
var spawnCh = make(chan spawnReq)
var spawnOnce sync.Once

type spawnReq struct {
	cmd *exec.Cmd
	err chan error
}

func startChild(cmd *exec.Cmd) error {
	spawnOnce.Do(func() {
		go func() {
			runtime.LockOSThread()
			for r := range spawnCh {
				r.err <- r.cmd.Start()
			}
		}()
	})
	if cmd.SysProcAttr == nil {
		cmd.SysProcAttr = &syscall.SysProcAttr{}
	}
	cmd.SysProcAttr.Pdeathsig = syscall.SIGKILL
	r := spawnReq{cmd: cmd, err: make(chan error, 1)}
	spawnCh <- r
	return <-r.err
}

// Child processes are started with --bind 127.0.0.1:0: the kernel picks a free port atomically and the harness reads
// it from the child's own "proxy is listening" log line. (Choosing a port in the harness and handing it to the child
// is racy on a busy machine: somebody else can take the port in between, and - worse - the harness may then find
// *another* test's proxy answering on it.)
var listenRe = regexp.MustCompile(`"msg":"proxy is listening","address":"([^"]+)"`)

func listenAddr(out *syncBuf, exited func() bool, d time.Duration) string {
	deadline := time.Now().Add(d)
	for {
		if m := listenRe.FindStringSubmatch(out.String()); m != nil {
			return m[1]
		}
		if exited() || time.Now().After(deadline) {
			if m := listenRe.FindStringSubmatch(out.String()); m != nil {
				return m[1]
			}
			return ""
		}
		time.Sleep(2 * time.Millisecond)
	}
}

// freePort is only used for the HTTP health-check listener of the readiness sub-check of C16 (whose address the
// binary does not log); it stays below the kernel's ephemeral range so that outgoing connections cannot take it.
var portCounter atomic.Int64

func freePort() int {
	shard, _ := evid.Shard()
	for try := 0; try < 200; try++ {
		n := portCounter.Add(1)
		port := 10000 + int((int64(os.Getpid())*7919+int64(shard)*104729+n*13)%22000)
		l, err := net.Listen("tcp", fmt.Sprintf("127.0.0.1:%d", port))
		if err != nil {
			continue
		}
		l.Close()
		return port
	}
	l, err := net.Listen("tcp", "127.0.0.1:0")
	if err != nil {
		return 0
	}
	defer l.Close()
	return l.Addr().(*net.TCPAddr).Port
}

// startBinary runs the cql-proxy binary with the given arguments/environment/YAML.
func startBinary(args []string, env []string, yaml string) (*proc, error) {
	bin := os.Getenv("VERIF_BIN")
	if bin == "" {
		return nil, fmt.Errorf("VERIF_BIN is not set (run through /verif/run)")
	}
	p := &proc{out: newSyncBuf(), done: make(chan struct{})}
	args = append([]string{"--bind", "127.0.0.1:0"}, args...)
	if yaml != "" {
		d, err := os.MkdirTemp("", "verif-c20-")
		if err != nil {
			return nil, err
		}
		p.tmpDir = d
		f := filepath.Join(d, "proxy.yaml")
		if err := os.WriteFile(f, []byte(yaml), 0o600); err != nil {
			return nil, err
		}
		args = append(args, "--config", f)
	}
	p.cmd = exec.Command(bin, args...)
	p.cmd.SysProcAttr = &syscall.SysProcAttr{Pdeathsig: syscall.SIGKILL} // never outlive the test process
	p.cmd.Env = append([]string{"PATH=/usr/bin:/bin", "HOME=/tmp"}, env...)
	p.cmd.Stdout, p.cmd.Stderr = p.out.File(), p.out.File()
	if err := startChild(p.cmd); err != nil {
		return nil, err
	}
	go func() { p.err = p.cmd.Wait(); close(p.done) }()
	return p, nil
}

func (p *proc) exited() bool {
	select {
	case <-p.done:
		return true
	default:
		return false
	}
}

func (p *proc) exitCode() int {
	if p.cmd.ProcessState == nil {
		return -1
	}
	return p.cmd.ProcessState.ExitCode()
}

func (p *proc) kill() {
	if !p.exited() {
		_ = p.cmd.Process.Kill()
		<-p.done
	}
	if p.tmpDir != "" {
		os.RemoveAll(p.tmpDir)
	}
	p.out.Close()
}

// waitServing: the bind address accepts a connection and answers OPTIONS. Returns
// "serving", "exited" or "timeout".
func (p *proc) waitServing(d time.Duration) string {
	deadline := time.Now().Add(d)
	if p.bind == "" {
		if p.bind = listenAddr(p.out, p.exited, d); p.bind == "" {
			if p.exited() {
				return "exited"
			}
			return "timeout"
		}
	}
	for time.Now().Before(deadline) {
		if p.exited() {
			return "exited"
		}
		c, err := rawcli.Dial(p.bind)
		if err == nil {
			if r, err := c.Fence(primitive.ProtocolVersion4, 2*time.Second); err == nil && r != nil {
				c.Close()
				return "serving"
			}
			c.Close()
		}
		time.Sleep(3 * time.Millisecond)
	}
	if p.exited() {
		return "exited"
	}
	return "timeout"
}

func (p *proc) tail() string {
	s := p.out.String()
	if len(s) > 1500 {
		s = "..." + s[len(s)-1500:]
	}
	return s
}

// ---- option tables transcribed from README / --help and the native protocol specification ----

var c20VersionNames = map[string]int{"v3": 3, "v4": 4, "v5": 5, "dsev1": 65, "dsev2": 66}
var c20VersionAliases = map[string]int{"3": 3, "4": 4, "5": 5, "65": 65, "66": 66} // accepted by the code, not documented
var c20Consistencies = map[string]int{"any": 0, "one": 1, "two": 2, "three": 3, "quorum": 4, "all": 5, "local_quorum": 6, "each_quorum": 7, "serial": 8, "local_serial": 9, "local_one": 10}

type c20Opt struct {
	Name    string `json:"name"`
	Value   string `json:"value"`
	Channel string `json:"channel"` // flag | short | env | yaml
}

type c20Peer struct {
	RPC    string   `json:"rpc_address,omitempty"`
	DC     string   `json:"data_center,omitempty"`
	Tokens []string `json:"tokens,omitempty"`
}

type c20Case struct {
	Opts      []c20Opt  `json:"options"`
	Peers     []c20Peer `json:"peers,omitempty"`
	NoBackend bool      `json:"no_backend,omitempty"`
	BadYAML   string    `json:"bad_yaml,omitempty"` // an extra YAML line with an unknown enum value
	Expect    string    `json:"expect"`             // serve | refuse | either
	Why       string    `json:"why"`
	// what to observe when serving
	WantVersion   int   `json:"want_version,omitempty"`
	WantMax       int   `json:"want_max,omitempty"`
	WantListed    []int `json:"want_listed,omitempty"`
	WantOverride  int   `json:"want_override,omitempty"`
	CheckOverride bool  `json:"check_override,omitempty"`
}

var c20Short = map[string]string{"protocol-version": "-n", "max-protocol-version": "-m", "contact-points": "-c", "port": "-r"}
var c20Env = map[string]string{"protocol-version": "PROTOCOL_VERSION", "max-protocol-version": "MAX_PROTOCOL_VERSION", "heartbeat-interval": "HEARTBEAT_INTERVAL",
	"idle-timeout": "IDLE_TIMEOUT", "num-conns": "NUM_CONNS", "rpc-address": "RPC_ADDRESS", "data-center": "DATA_CENTER", "tokens": "TOKENS",
	"unsupported-write-consistencies": "UNSUPPORTED_WRITE_CONSISTENCIES", "contact-points": "CONTACT_POINTS", "port": "PORT"}

func c20Check(c c20Case) *evid.Fail {
	cl, err := fakecass.New(1)
	if err != nil {
		return evid.Failf("harness-env", "%v", err)
	}
	defer cl.Close()
	cl.MaxVersion = primitive.ProtocolVersionDse2
	var args, env []string
	var yaml strings.Builder
	opts := append([]c20Opt(nil), c.Opts...)
	if !c.NoBackend {
		opts = append(opts, c20Opt{"contact-points", cl.HostIP(0), "flag"}, c20Opt{"port", fmt.Sprint(cl.Port), "flag"})
	}
	for _, o := range opts {
		switch o.Channel {
		case "flag":
			args = append(args, "--"+o.Name, o.Value)
		case "short":
			args = append(args, c20Short[o.Name], o.Value)
		case "env":
			env = append(env, c20Env[o.Name]+"="+o.Value)
		case "yaml":
			if o.Name == "unsupported-write-consistencies" || o.Name == "tokens" {
				fmt.Fprintf(&yaml, "%s: [%s]\n", o.Name, o.Value)
			} else if o.Name == "num-conns" || o.Name == "port" {
				fmt.Fprintf(&yaml, "%s: %s\n", o.Name, o.Value)
			} else {
				fmt.Fprintf(&yaml, "%s: %q\n", o.Name, o.Value)
			}
		}
	}
	if len(c.Peers) > 0 {
		yaml.WriteString("peers:\n")
		for _, p := range c.Peers {
			yaml.WriteString("  - ")
			first := true
			line := func(s string) {
				if !first {
					yaml.WriteString("    ")
				}
				yaml.WriteString(s + "\n")
				first = false
			}
			if p.RPC != "" {
				line(fmt.Sprintf("rpc-address: %q", p.RPC))
			}
			if p.DC != "" {
				line(fmt.Sprintf("data-center: %q", p.DC))
			}
			if len(p.Tokens) > 0 {
				line(fmt.Sprintf("tokens: [%s]", strings.Join(p.Tokens, ", ")))
			}
			if first {
				line("data-center: \"\"")
			}
		}
	}
	if c.BadYAML != "" {
		yaml.WriteString(c.BadYAML + "\n")
	}
	var p *proc
	var state string
	for try := 0; ; try++ {
		var err error
		p, err = startBinary(args, env, yaml.String())
		if err != nil {
			return evid.Failf("harness-start", "%v", err)
		}
		state = p.waitServing(10 * time.Second)
		if state == "exited" && try < 3 && strings.Contains(p.tail(), "address already in use") {
			p.kill() // the listening port chosen by the harness was taken by somebody else: not the proxy's doing
			continue
		}
		break
	}
	defer p.kill()
	what := fmt.Sprintf("%s (args %v env %v yaml %q)", c.Why, args, env, yaml.String())
	switch c.Expect {
	case "refuse":
		if state == "serving" {
			return evid.Failf("bad-config-accepted:"+c.Why, "the proxy serves clients with an invalid configuration: %s\noutput: %s", what, p.tail())
		}
		if state == "timeout" {
			return evid.Failf("bad-config-hangs:"+c.Why, "the proxy neither exits nor serves with an invalid configuration: %s\noutput: %s", what, p.tail())
		}
		if code := p.exitCode(); code == 0 {
			return evid.Failf("bad-config-exit-zero:"+c.Why, "the proxy exited with status 0 on an invalid configuration: %s\noutput: %s", what, p.tail())
		}
		return nil
	case "either":
		return nil
	}
	if state != "serving" {
		return evid.Failf("valid-config-refused:"+c.Why, "the proxy does not start with a valid configuration (%s, exit code %d): %s\noutput: %s", state, p.exitCode(), what, p.tail())
	}
	// the version of the control connection
	if c.WantVersion != 0 {
		regs := cl.RegisteredConns()
		if len(regs) == 0 {
			return evid.Failf("no-control-connection", "serving without a control connection: %s", what)
		}
		if got := int(regs[0].Version); got != c.WantVersion {
			return evid.Failf(fmt.Sprintf("protocol-version:%s", c.Why), "protocol-version selects version %d on the backend connection, the name means %d: %s", got, c.WantVersion, what)
		}
	}
	// the client-side gate
	if c.WantMax != 0 {
		var accepted []int
		for _, v := range []int{3, 4, 5, 65, 66} {
			cc, err := rawcli.Dial(p.bind)
			if err != nil {
				return evid.Failf("harness-client", "%v", err)
			}
			r, err := cc.Fence(primitive.ProtocolVersion(v), posWait)
			cc.Close()
			if err != nil {
				return evid.Failf("gate-no-reply", "no reply to OPTIONS with version %d: %s", v, what)
			}
			if primitive.OpCode(r.F.Op) == primitive.OpCodeSupported {
				accepted = append(accepted, v)
			}
		}
		var want []int
		for _, v := range []int{3, 4, 5, 65, 66} {
			if v <= c.WantMax {
				want = append(want, v)
			}
		}
		if fmt.Sprint(accepted) != fmt.Sprint(want) {
			return evid.Failf(fmt.Sprintf("max-protocol-version:%s", c.Why), "max-protocol-version admits client versions %v, the name means %v: %s", accepted, want, what)
		}
	}
	if c.CheckOverride {
		cc, err := rawcli.Dial(p.bind)
		if err != nil {
			return evid.Failf("harness-client", "%v", err)
		}
		defer cc.Close()
		if err := cc.Startup(primitive.ProtocolVersion4, "", posWait); err != nil {
			return evid.Failf("harness-client", "%v", err)
		}
		for lvl := 0; lvl <= 10; lvl++ {
			tok := nextToken()
			f, _ := wire.Msg(primitive.ProtocolVersion4, false, int16(100+lvl), &message.Query{Query: "INSERT INTO ks1.t (k) VALUES ('" + tok + "')", Options: &message.QueryOptions{Consistency: primitive.ConsistencyLevel(lvl)}}, "")
			from := cc.NumFrames()
			_ = cc.SendFrame(f)
			rp := cc.WaitStream(int16(100+lvl), from, 1, posWait)
			if rp == nil {
				return evid.Failf("no-reply", "no reply to a write at consistency %d: %s", lvl, what)
			}
			as := cl.Attempts(tok)
			if len(as) != 1 {
				reply := "undecodable"
				if b, err := cc.Decode(rp); err == nil {
					reply = fmt.Sprint(b.Message)
				}
				return evid.Failf("attempts", "write at consistency %d reached the backend %d times; the client got %s: %s\noutput: %s", lvl, len(as), reply, what, p.tail())
			}
			b, err := decodeAttempt(as[0])
			if err != nil {
				return evid.Failf("harness-decode", "%v", err)
			}
			got := int(b.Message.(*message.Query).Options.Consistency)
			want := lvl
			if contains(c.WantListed, lvl) {
				want = c.WantOverride
			}
			if got != want {
				return evid.Failf("consistency-option:"+c.Why, "a write at consistency %d reached the backend with %d, the configuration (listed %v, override %d) means %d: %s", lvl, got, c.WantListed, c.WantOverride, want, what)
			}
		}
	}
	return nil
}

func mixCaseStr(rt *rapid.T, s string) string {
	switch rapid.IntRange(0, 3).Draw(rt, "case") {
	case 0:
		return strings.ToLower(s)
	case 1:
		return strings.ToUpper(s)
	case 2:
		return s
	}
	b := []byte(strings.ToLower(s))
	for i := range b {
		if rapid.Bool().Draw(rt, "up") {
			b[i] = strings.ToUpper(string(b[i]))[0]
		}
	}
	return string(b)
}

func c20Channel(rt *rapid.T, name string, allowYAML bool) string {
	var chs []string
	chs = append(chs, "flag")
	if _, ok := c20Short[name]; ok {
		chs = append(chs, "short")
	}
	if _, ok := c20Env[name]; ok {
		chs = append(chs, "env")
	}
	if allowYAML {
		chs = append(chs, "yaml")
	}
	return chs[rapid.IntRange(0, len(chs)-1).Draw(rt, "channel")]
}

var c20DocSpellings = []string{"v3", "v4", "v5", "DSEv1", "DSEv2"}

func c20Gen(rt *rapid.T) c20Case {
	var c c20Case
	switch k := rapid.IntRange(0, 11).Draw(rt, "family"); {
	case k <= 2: // (version, max) pair through generated channels and spellings
		vn := c20DocSpellings[rapid.IntRange(0, 4).Draw(rt, "v")]
		mn := c20DocSpellings[rapid.IntRange(0, 4).Draw(rt, "m")]
		v, m := c20VersionNames[strings.ToLower(vn)], c20VersionNames[strings.ToLower(mn)]
		c.Opts = []c20Opt{{"protocol-version", mixCaseStr(rt, vn), c20Channel(rt, "protocol-version", true)}, {"max-protocol-version", mixCaseStr(rt, mn), c20Channel(rt, "max-protocol-version", true)}}
		c.Why = "version-pair"
		switch {
		case v <= m:
			c.Expect, c.WantVersion, c.WantMax = "serve", v, m
		case v == 5 && m >= 65 || m == 5 && v >= 65:
			c.Expect = "either" // the order of v5 relative to the DSE versions is not documented
		default:
			c.Expect = "refuse"
			c.Why = "version-above-max"
		}
	case k == 3: // numeric aliases (undocumented): must at least be consistent with the version they spell
		al := []string{"3", "4", "5", "65", "66"}[rapid.IntRange(0, 4).Draw(rt, "alias")]
		v := c20VersionAliases[al]
		c.Opts = []c20Opt{{"protocol-version", al, c20Channel(rt, "protocol-version", true)}, {"max-protocol-version", "DSEv2", "flag"}}
		c.Expect, c.WantVersion, c.Why = "serve", v, "numeric-alias"
	case k == 4: // unknown version names
		bad := rapid.SampledFrom([]string{"v6", "vv4", "", "DSEv3", "4.0", " v4", "v2", "v1", "dse", "v4 ", "0", "six", "v65", "v66", "V66", "04", "v04", "2", "065", "+4", "4e0", "0x4", "DSEv02"}).Draw(rt, "badversion")
		name := rapid.SampledFrom([]string{"protocol-version", "max-protocol-version"}).Draw(rt, "which")
		c.Opts = []c20Opt{{name, bad, c20Channel(rt, name, bad != "")}}
		c.Expect, c.Why = "refuse", "unknown-version-name"
		if bad == "" && c.Opts[0].Channel == "env" {
			c.Expect = "either" // an empty environment variable counts as unset
		}
	case k == 5 || k == 6: // consistency options
		var listed []int
		var names []string
		n := rapid.IntRange(1, 4).Draw(rt, "nlisted")
		all := []string{"any", "one", "two", "three", "quorum", "all", "local_quorum", "each_quorum", "serial", "local_serial", "local_one"}
		for i := 0; i < n; i++ {
			nm := all[rapid.IntRange(0, len(all)-1).Draw(rt, "cl")]
			if !contains(listed, c20Consistencies[nm]) {
				listed = append(listed, c20Consistencies[nm])
				names = append(names, mixCaseStr(rt, nm))
			}
		}
		ov := all[rapid.IntRange(0, len(all)-1).Draw(rt, "override")]
		ch := c20Channel(rt, "unsupported-write-consistencies", true)
		c.Opts = []c20Opt{{"unsupported-write-consistencies", strings.Join(names, ","), ch}, {"unsupported-write-consistency-override", mixCaseStr(rt, ov), rapid.SampledFrom([]string{"flag", "yaml"}).Draw(rt, "ovch")}}
		c.Expect, c.Why, c.WantListed, c.WantOverride, c.CheckOverride = "serve", "consistency-names", listed, c20Consistencies[ov], true
	case k == 7: // unknown consistency names
		bad := rapid.SampledFrom([]string{"QUORUMS", "LOCAL", "0x4", "local-quorum", "each quorum", "ANYY", "4", "localone"}).Draw(rt, "badcl")
		if rapid.Bool().Draw(rt, "inlist") {
			c.Opts = []c20Opt{{"unsupported-write-consistencies", "one," + bad, c20Channel(rt, "unsupported-write-consistencies", true)}}
		} else {
			c.Opts = []c20Opt{{"unsupported-write-consistency-override", bad, rapid.SampledFrom([]string{"flag", "yaml"}).Draw(rt, "ovch")}}
		}
		c.Expect, c.Why = "refuse", "unknown-consistency-name"
	case k == 8: // heartbeat interval vs idle timeout around equality
		h := rapid.SampledFrom([]time.Duration{time.Second, 30 * time.Second, time.Minute, 1500 * time.Millisecond}).Draw(rt, "heartbeat")
		d := rapid.SampledFrom([]time.Duration{-time.Second, -time.Millisecond, -1, 0, 1, time.Millisecond, time.Second}).Draw(rt, "delta")
		c.Opts = []c20Opt{{"heartbeat-interval", h.String(), c20Channel(rt, "heartbeat-interval", true)}, {"idle-timeout", (h + d).String(), c20Channel(rt, "idle-timeout", true)}}
		if d > 0 {
			if h < 30*time.Second {
				// valid, but an idle timeout a hair above a one-second heartbeat interval makes the proxy drop and
				// replace its backend connections every second; the observations below need a quiet proxy, so the
				// accepted side uses intervals that do not elapse during the case
				h = 30 * time.Second
				c.Opts = []c20Opt{{"heartbeat-interval", h.String(), c.Opts[0].Channel}, {"idle-timeout", (h + d).String(), c.Opts[1].Channel}}
			}
			c.Expect, c.Why, c.WantVersion = "serve", "heartbeat-below-idle", 4
		} else {
			c.Expect, c.Why = "refuse", "heartbeat-not-below-idle"
		}
	case k == 9:
		n := rapid.SampledFrom([]int{-1, 0, 1, 2, 17}).Draw(rt, "numconns")
		c.Opts = []c20Opt{{"num-conns", fmt.Sprint(n), c20Channel(rt, "num-conns", true)}}
		if n >= 1 {
			c.Expect, c.Why, c.WantVersion = "serve", "num-conns-valid", 4
		} else {
			c.Expect, c.Why = "refuse", "num-conns-below-one"
		}
	case k == 10:
		c.NoBackend = true
		c.Expect, c.Why = "refuse", "no-backend"
		if rapid.Bool().Draw(rt, "withopts") {
			c.Opts = []c20Opt{{"num-conns", "2", "flag"}}
		}
	default: // peers / tokens / rpc-address
		np := rapid.IntRange(1, 3).Draw(rt, "npeers")
		for i := 0; i < np; i++ {
			c.Peers = append(c.Peers, c20Peer{RPC: fmt.Sprintf("10.9.0.%d", i+1), DC: "dc1", Tokens: []string{fmt.Sprint(i * 100)}})
		}
		rpc := c20Opt{"rpc-address", "10.9.0.100", c20Channel(rt, "rpc-address", true)}
		tok := c20Opt{"tokens", "5000", c20Channel(rt, "tokens", true)}
		pc := rapid.IntRange(0, 5).Draw(rt, "peercase")
		if (pc == 0 || pc == 3) && rapid.Bool().Draw(rt, "selfinpeers") {
			// the shared peers list of the README: it also names this proxy itself (with tokens)
			self := c20Peer{RPC: "10.9.0.100", DC: "dc1", Tokens: []string{"5000"}}
			at := rapid.IntRange(0, len(c.Peers)).Draw(rt, "selfat")
			c.Peers = append(c.Peers[:at], append([]c20Peer{self}, c.Peers[at:]...)...)
			if pc == 3 {
				np = 0 // the peer that loses its tokens below must not be the proxy's own entry
			}
		}
		switch pc {
		case 0:
			c.Opts = []c20Opt{rpc, tok}
			c.Expect, c.Why, c.WantVersion = "serve", "peers-valid", 4
		case 1:
			c.Opts = []c20Opt{tok}
			c.Expect, c.Why = "refuse", "peers-without-proxy-rpc-address"
		case 2:
			c.Peers[rapid.IntRange(0, np-1).Draw(rt, "which")].RPC = ""
			c.Opts = []c20Opt{rpc, tok}
			c.Expect, c.Why = "refuse", "peer-without-rpc-address"
		case 3:
			if np == 0 { // own entry present: pick one of the others
				var others []int
				for i := range c.Peers {
					if c.Peers[i].RPC != "10.9.0.100" {
						others = append(others, i)
					}
				}
				c.Peers[others[rapid.IntRange(0, len(others)-1).Draw(rt, "whichother")]].Tokens = nil
			} else {
				c.Peers[rapid.IntRange(0, np-1).Draw(rt, "which")].Tokens = nil
			}
			c.Opts = []c20Opt{rpc, tok}
			c.Expect, c.Why = "refuse", "tokens-for-self-not-every-peer"
		case 4:
			c.Opts = []c20Opt{rpc} // tokens for the peers only: computed for everybody
			c.Expect, c.Why, c.WantVersion = "serve", "peer-tokens-only", 4
		case 5:
			for i := range c.Peers {
				c.Peers[i].Tokens = nil
			}
			c.Opts = []c20Opt{rpc}
			c.Expect, c.Why, c.WantVersion = "serve", "peers-no-tokens", 4
		}
	}
	if rapid.IntRange(0, 14).Draw(rt, "badyaml") == 0 && c.Expect == "serve" {
		// a valid configuration plus a YAML file that names an unknown enum value
		c.BadYAML = rapid.SampledFrom([]string{"unsupported-write-consistency-override: NOT_A_LEVEL", "unsupported-write-consistencies: [one, bogus]", "num-conns: many", "heartbeat-interval: soon", "debug: perhaps",
			// a version option that is present without a value (a template that rendered empty) names no documented version
			"protocol-version: ~", "protocol-version:", "max-protocol-version: null", "protocol-version: \"\""}).Draw(rt, "badyamlline")
		c.Expect, c.Why = "refuse", "invalid-yaml-value"
	}
	return c
}

// exhaustive part: every documented spelling x all ordered pairs, every consistency name
func c20Enumerate(shard, shards int, yield func(c20Case) bool) {
	n := 0
	emit := func(c c20Case) bool {
		n++
		if n%shards != shard {
			return true
		}
		return yield(c)
	}
	for _, ch := range []string{"flag", "yaml"} {
		for _, vn := range c20DocSpellings {
			for _, mn := range c20DocSpellings {
				v, m := c20VersionNames[strings.ToLower(vn)], c20VersionNames[strings.ToLower(mn)]
				c := c20Case{Opts: []c20Opt{{"protocol-version", vn, ch}, {"max-protocol-version", mn, ch}}, Why: "version-pair"}
				switch {
				case v <= m:
					c.Expect, c.WantVersion, c.WantMax = "serve", v, m
				case v == 5 && m >= 65 || m == 5 && v >= 65:
					c.Expect = "either"
				default:
					c.Expect, c.Why = "refuse", "version-above-max"
				}
				if !emit(c) {
					return
				}
			}
		}
	}
	for _, sp := range []func(string) string{strings.ToLower, strings.ToUpper} {
		for _, vn := range c20DocSpellings {
			v := c20VersionNames[strings.ToLower(vn)]
			if !emit(c20Case{Opts: []c20Opt{{"protocol-version", sp(vn), "env"}, {"max-protocol-version", sp(vn), "short"}}, Why: "version-spelling", Expect: "serve", WantVersion: v, WantMax: v}) {
				return
			}
		}
	}
	names := make([]string, 0, len(c20Consistencies))
	for k := range c20Consistencies {
		names = append(names, k)
	}
	sort.Strings(names)
	for _, sp := range []func(string) string{strings.ToLower, strings.ToUpper} {
		for _, nm := range names {
			// each name once as the listed level and once as the override
			other := "quorum"
			if nm == "quorum" {
				other = "one"
			}
			if !emit(c20Case{Opts: []c20Opt{{"unsupported-write-consistencies", sp(nm), "flag"}, {"unsupported-write-consistency-override", sp(other), "flag"}}, Why: "consistency-names", Expect: "serve",
				WantListed: []int{c20Consistencies[nm]}, WantOverride: c20Consistencies[other], CheckOverride: true}) {
				return
			}
			if !emit(c20Case{Opts: []c20Opt{{"unsupported-write-consistencies", sp(other), "yaml"}, {"unsupported-write-consistency-override", sp(nm), "yaml"}}, Why: "consistency-names", Expect: "serve",
				WantListed: []int{c20Consistencies[other]}, WantOverride: c20Consistencies[nm], CheckOverride: true}) {
				return
			}
		}
	}
}

func TestC20(t *testing.T) {
	rec := evid.New("C20", "exploration",
		"the real cql-proxy binary started as a subprocess against a fake backend that accepts every protocol version; exhaustive: all 25 ordered (protocol-version, max-protocol-version) pairs in the documented spellings via flags and YAML, every spelling in lower/upper case via env and short flags, every consistency name in lower/upper case as listed level and as override via flags and YAML; generated: option values delivered through a generated channel (long flag, short flag, environment variable, YAML key) in mixed letter case, numeric aliases, unknown names, heartbeat/idle pairs around equality, num-conns around 1, missing backend, peers/tokens/rpc-address combinations, YAML files with an invalid value; "+
			"oracle: tables transcribed from README/--help and the protocol specification: valid => serves, the control connection uses exactly the named version, the client gate admits exactly the versions up to the named maximum, writes at listed levels arrive with the named override and other levels untouched; invalid => non-zero exit without ever serving a client; "+
			"non-trivial = a case whose observed value is compared with the table, or an invalid configuration; distinct by case content")
	defer finish(t, rec)
	rec.Assume("the order of v5 relative to DSEv1/DSEv2 is not documented: those pairs are only required not to crash the harness (expectation 'either')",
		"an empty environment variable counts as unset", "durations are positive")
	shard, shards := evid.Shard()
	n := 0
	runEnum(t, rec, "documented", func(yield func(c20Case) bool) {
		c20Enumerate(shard, shards, func(c c20Case) bool {
			n++
			rec.Case("E:"+js(c), "expect:"+c.Expect, "why:"+c.Why)
			if n%9 == 1 {
				rec.Sample(c)
			}
			return yield(c)
		})
	}, c20Check)
	rec.Extra("documented_spellings_enumerated", int64(n))
	runProp(t, rec, "generated", perShard(evid.Pick(5000, 150000)), func(rt *rapid.T) c20Case {
		c := c20Gen(rt)
		labels := []string{"expect:" + c.Expect, "why:" + c.Why}
		for _, o := range c.Opts {
			labels = append(labels, "channel:"+o.Channel)
		}
		key := ""
		if c.Expect != "either" {
			key = js(c)
		}
		rec.Case(key, labels...)
		rec.Sample(c)
		return c
	}, c20Check)
}
