package checks

import (
	"encoding/json"
	"fmt"
	"io"
	"math"
	"net"
	"net/http"
	"os"
	"os/exec"
	"sort"
	"strings"
	"syscall"
	"testing"
	"time"

	"github.com/datastax/cql-proxy/proxy"
	"github.com/datastax/cql-proxy/proxycore"
	"github.com/datastax/go-cassandra-native-protocol/message"
	"github.com/datastax/go-cassandra-native-protocol/primitive"
	"pgregory.net/rapid"

	"verif/harness/evid"
	"verif/harness/fakecass"
	"verif/harness/rawcli"
)

// ---- C16: the proxy tracks backend topology and heals lost backend connections ----

// (a) the backoff calculator (pure)

type c16Backoff struct {
	BaseNs int64    `json:"base_ns"`
	MaxNs  int64    `json:"max_ns"`
	Ops    []string `json:"ops"` // next | reset | clone
}

func c16BackoffCheck(c c16Backoff) *evid.Fail {
	base, max := time.Duration(c.BaseNs), time.Duration(c.MaxNs)
	p := proxycore.NewReconnectPolicyWithDelays(base, max)
	lo := base
	if max < lo {
		lo = max
	}
	var prev time.Duration = -1
	afterReset := true
	where := fmt.Sprintf("base=%v max=%v", base, max)
	for i, op := range c.Ops {
		switch op {
		case "reset":
			p.Reset()
			prev, afterReset = -1, true
		case "clone":
			// the clone starts from the beginning and shares no state with the original
			q := p.Clone()
			d := q.NextDelay()
			if d > max || d < lo {
				return evid.Failf("backoff-bounds", "%s: first delay of a clone is %v", where, d)
			}
			if d > base+time.Millisecond+115*time.Millisecond && d != max {
				return evid.Failf("backoff-clone-not-fresh", "%s: first delay of a clone is %v, expected at most base+1ms+jitter", where, d)
			}
			for k := 0; k < 5; k++ {
				q.NextDelay()
			}
		case "next":
			d := p.NextDelay()
			if d > max {
				return evid.Failf("backoff-above-max", "%s: delay %v at step %d exceeds the configured maximum", where, d, i)
			}
			if d < lo {
				return evid.Failf("backoff-below-base", "%s: delay %v at step %d is below min(base,max)", where, d, i)
			}
			if afterReset && d > base+time.Millisecond+115*time.Millisecond && d != max {
				return evid.Failf("backoff-not-reset", "%s: first delay after a reset is %v, expected at most base+1ms+jitter (or the cap)", where, d)
			}
			if prev >= 0 && d < prev-30*time.Millisecond {
				return evid.Failf("backoff-decreases", "%s: delay fell from %v to %v without a reset", where, prev, d)
			}
			prev, afterReset = d, false
		}
	}
	return nil
}

// (b) topology and healing through an in-process proxy with millisecond timers

type c16Action struct {
	Op   string `json:"op"`
	Host int    `json:"host"`
	Conn int    `json:"conn,omitempty"`
	N    int    `json:"n,omitempty"`
}

type c16Case struct {
	Hosts   int         `json:"hosts"`
	Conns   int         `json:"conns"`
	Actions []c16Action `json:"actions"`
	// FailedUse > 0: before the actions start, that many clients (alternating protocol versions, so distinct backend
	// sessions) issue USE for a keyspace that does not exist; the backend refuses, the client gets an error, and the
	// proxy is left with sessions that never came up. Topology changes afterwards must be followed all the same.
	FailedUse int `json:"failed_use,omitempty"`
}

const (
	c16Heartbeat = 20 * time.Millisecond
	c16Idle      = 90 * time.Millisecond
	c16ReconBase = 5 * time.Millisecond
	c16ReconMax  = 30 * time.Millisecond
	c16Refresh   = 25 * time.Millisecond
)

type c16World struct {
	e      *env
	r      *runner
	c      c16Case
	member map[int]bool // listed in the backend's system tables
	up     map[int]bool // accepting connections
}

func (w *c16World) live() []int {
	var out []int
	for h := range w.member {
		if w.member[h] && w.up[h] {
			out = append(out, h)
		}
	}
	sort.Ints(out)
	return out
}

func (w *c16World) emitTopology(kind string, host int) {
	ip := net.ParseIP(w.e.Cluster.HostIP(host))
	addr := &primitive.Inet{Addr: ip, Port: int32(w.e.Cluster.Port)}
	switch kind {
	case "new":
		w.e.Cluster.Emit(&message.TopologyChangeEvent{ChangeType: primitive.TopologyChangeTypeNewNode, Address: addr}, primitive.EventTypeTopologyChange)
	case "removed":
		w.e.Cluster.Emit(&message.TopologyChangeEvent{ChangeType: primitive.TopologyChangeTypeRemovedNode, Address: addr}, primitive.EventTypeTopologyChange)
	case "up":
		w.e.Cluster.Emit(&message.StatusChangeEvent{ChangeType: primitive.StatusChangeTypeUp, Address: addr}, primitive.EventTypeStatusChange)
	}
}

// probe sends n idempotent queries and returns the hosts that executed them.
func (w *c16World) probe(n int) (map[int]int, *evid.Fail) {
	got := map[int]int{}
	for i := 0; i < n; i++ {
		tok := nextToken()
		s := w.r.nextStream()
		from := w.r.c.NumFrames()
		f, _ := buildFrame(4, s, &message.Query{Query: "SELECT * FROM ks1.probe WHERE k = '" + tok + "'", Options: &message.QueryOptions{Consistency: primitive.ConsistencyLevelOne}}, false, "", false)
		if err := w.r.c.SendFrame(f); err != nil {
			return nil, evid.Failf("harness-send", "%v", err)
		}
		rp := w.r.c.WaitStream(s, from, 1, posWait)
		if rp == nil {
			return nil, evid.Failf("probe-unanswered", "a probe request was not answered within %v", posWait)
		}
		ri, err := w.r.reply(rp)
		if err != nil {
			return nil, evid.Failf("undecodable", "%v", err)
		}
		if ri.Echo != nil {
			got[ri.Echo.Host]++
		} else {
			got[-1]++ // an error (e.g. no host available)
		}
	}
	return got, nil
}

// converged: routing equals the live member set, every live member has its pooled connections, exactly one
// control connection exists (on a live member) whenever a member is live.
func (w *c16World) converged() (bool, string) {
	live := w.live()
	pooled := map[int]int{}
	control := 0
	controlOn := -1
	for h := 0; h < w.e.Cluster.NumHosts(); h++ {
		for _, cn := range w.e.Cluster.Host(h).Conns() {
			if cn.IsRegistered() {
				control++
				controlOn = h
			} else if cn.IsStarted() {
				pooled[h]++
			}
		}
	}
	if len(live) == 0 {
		return true, ""
	}
	if control != 1 {
		return false, fmt.Sprintf("%d control connections (want 1)", control)
	}
	if !contains(live, controlOn) {
		return false, fmt.Sprintf("control connection on host %d which is not a live member", controlOn)
	}
	for _, h := range live {
		// (fewer than configured = a lost connection that was not replaced; surplus connections - e.g. sockets of
		// failed connection attempts of a session that never came up - are not something the property speaks about)
		if pooled[h] < w.c.Conns || (w.c.FailedUse == 0 && pooled[h] != w.c.Conns) {
			desc := ""
			for _, cn := range w.e.Cluster.Host(h).Conns() {
				a, b := cn.Info()
				desc += fmt.Sprintf(" [%s %s reg=%v started=%v]", a, b, cn.IsRegistered(), cn.IsStarted())
			}
			return false, fmt.Sprintf("host %d has %d pooled connections (want %d):%s", h, pooled[h], w.c.Conns, desc)
		}
	}
	got, f := w.probe(2*len(live) + 1)
	if f != nil {
		return false, f.Msg
	}
	for h, n := range got {
		if h == -1 {
			return false, fmt.Sprintf("%d probes answered with an error", n)
		}
		if !contains(live, h) {
			return false, fmt.Sprintf("host %d received %d probes but is not a live member %v", h, n, live)
		}
	}
	for _, h := range live {
		if got[h] == 0 {
			return false, fmt.Sprintf("live member %d received no probe (distribution %v)", h, got)
		}
	}
	return true, ""
}

func (w *c16World) awaitConvergence(what string) *evid.Fail {
	stallReset()
	bound := 400 * (c16Refresh + c16ReconMax + c16Idle)
	if bound > 12*time.Second {
		bound = 12 * time.Second
	}
	deadline := time.Now().Add(bound)
	why := ""
	for {
		var ok bool
		if ok, why = w.converged(); ok {
			return nil
		}
		if time.Now().After(deadline) {
			if stalled(bound) {
				return evid.Failf("harness-stall", "stalled")
			}
			return evid.Failf("no-convergence:"+strings.Fields(what)[0], "%v after %s the proxy has not converged to the backend's state (members %v, up %v): %s\n%s", bound, what, w.member, w.up, why, proxyStacks())
		}
		time.Sleep(2 * time.Millisecond)
	}
}

func c16Check(c c16Case) *evid.Fail {
	e, err := startEnv(envOpts{Hosts: c.Hosts, NumConns: c.Conns, Keyspaces: []string{"ks1"}, HeartBeat: c16Heartbeat, Idle: c16Idle, ReconnBase: c16ReconBase, ReconnMax: c16ReconMax, ConnectTimeout: 300 * time.Millisecond})
	if err != nil {
		return evid.Failf("harness-env", "%v", err)
	}
	defer e.Close()
	proxy.VerifSetRefreshWindow(e.Proxy, c16Refresh)
	r, err := newRunner(e, 4, "")
	if err != nil {
		return evid.Failf("harness-client", "%v", err)
	}
	w := &c16World{e: e, r: r, c: c, member: map[int]bool{}, up: map[int]bool{}}
	for h := 0; h < c.Hosts; h++ {
		w.member[h], w.up[h] = true, true
	}
	if f := w.awaitConvergence("start-up"); f != nil {
		return f
	}
	for i := 0; i < c.FailedUse; i++ {
		v := []primitive.ProtocolVersion{3, 4}[i%2]
		cl, err := e.client(v, "")
		if err != nil {
			return evid.Failf("harness-client", "%v", err)
		}
		if err := cl.SendMsg(v, 1, &message.Query{Query: fmt.Sprintf("USE no_such_keyspace_%d", i), Options: &message.QueryOptions{Consistency: primitive.ConsistencyLevelOne}}, false); err != nil {
			return evid.Failf("harness-send", "%v", err)
		}
		rp := cl.WaitStream(1, 0, 1, posWait)
		if rp == nil {
			return evid.Failf("use-unanswered", "USE of a keyspace that does not exist was not answered within %v", posWait)
		}
		if b, err := cl.Decode(rp); err == nil {
			if _, isErr := b.Message.(message.Error); !isErr {
				return evid.Failf("use-missing-accepted", "USE of a keyspace that does not exist was answered with %v", b.Message)
			}
		}
	}
	for ai, a := range c.Actions {
		what := fmt.Sprintf("%s (action %d)", a.Op, ai)
		nh := e.Cluster.NumHosts()
		h := a.Host % nh
		switch a.Op {
		case "add_node":
			nhost, err := e.Cluster.AddHost(true)
			if err != nil {
				return evid.Failf("harness-addhost", "%v", err)
			}
			w.member[nhost.Idx], w.up[nhost.Idx] = true, true
			w.emitTopology("new", nhost.Idx)
		case "event_then_failover":
			// a topology event, and the control connection is lost before the refresh window has elapsed
			nhost, err := e.Cluster.AddHost(true)
			if err != nil {
				return evid.Failf("harness-addhost", "%v", err)
			}
			w.member[nhost.Idx], w.up[nhost.Idx] = true, true
			w.emitTopology("new", nhost.Idx)
			for _, cn := range e.Cluster.RegisteredConns() {
				cn.Close()
			}
		case "remove_node":
			// the node is decommissioned: it leaves the peers tables, hangs up, and refuses new connections
			// (the attempts it sees are recorded)
			if len(w.live()) <= 1 || !w.member[h] || !w.up[h] {
				continue
			}
			e.Cluster.SetMember(h, false)
			w.member[h] = false
			controlOnH := false
			for _, cn := range e.Cluster.Host(h).Conns() {
				if cn.IsRegistered() {
					controlOnH = true
				}
			}
			if a.N%2 == 0 && !controlOnH {
				// the node is only taken out of the peers tables: its established connections stay up (it refuses
				// new ones, so the control connection cannot move there and list it again). Requests must stop
				// going to it although the proxy could still reach it.
				e.Cluster.Host(h).SetRejectNew()
			} else {
				e.Cluster.Host(h).SetReject(true)
			}
			w.emitTopology("removed", h)
			if f := w.awaitConvergence(what); f != nil {
				return f
			}
		case "restart_node":
			if !w.member[h] || e.Cluster.Host(h).Rejecting() {
				continue
			}
			e.Cluster.Host(h).Stop()
			time.Sleep(time.Duration(a.N%40) * time.Millisecond)
			if err := e.Cluster.Host(h).Start(); err != nil {
				return evid.Failf("harness-restart", "%v", err)
			}
			w.up[h] = true
			w.emitTopology("up", h)
		case "drop_pooled":
			cs := e.Cluster.Host(h).Conns()
			var pooled []*fakecass.Conn
			for _, cn := range cs {
				if !cn.IsRegistered() {
					pooled = append(pooled, cn)
				}
			}
			if len(pooled) > 0 {
				pooled[a.Conn%len(pooled)].Close()
			}
		case "partial_pool_loss":
			// one of a host's two pooled connections is lost and its replacement hangs in the handshake: the host
			// still has a usable connection and must keep receiving its share of requests
			if c.Conns < 2 || !w.member[h] || !w.up[h] {
				continue
			}
			var pooled []*fakecass.Conn
			for _, cn := range e.Cluster.Host(h).Conns() {
				if !cn.IsRegistered() {
					pooled = append(pooled, cn)
				}
			}
			if len(pooled) < 2 {
				continue
			}
			e.Cluster.SetHoldStartup(true)
			pooled[a.Conn%len(pooled)].Close()
			deadline := time.Now().Add(posWait)
			for e.Cluster.HeldStartups() == 0 {
				if time.Now().After(deadline) {
					e.Cluster.ReleaseStartups()
					return evid.Failf("no-reconnect-attempt", "a lost pooled connection of host %d was not re-dialled within %v", h, posWait)
				}
				time.Sleep(time.Millisecond)
			}
			got, f := w.probe(2*len(w.live()) + 2)
			e.Cluster.ReleaseStartups()
			if f != nil {
				return f
			}
			if got[-1] > 0 || got[h] == 0 {
				return evid.Failf("host-with-usable-connection-skipped", "host %d lost one of its two pooled connections (the replacement is still connecting); it still has a usable connection but the probes went to %v (-1 = error)", h, got)
			}
		case "drop_control":
			for _, cn := range e.Cluster.RegisteredConns() {
				cn.Close()
			}
		case "drop_all":
			e.Cluster.Host(h).DropConns(nil)
		case "drop_several":
			for hh := 0; hh < nh; hh++ {
				go e.Cluster.Host(hh).DropConns(nil)
			}
		case "silence_pooled", "silence_control":
			// the backend stops answering on one connection but keeps it open: the proxy must give up on it after
			// the idle timeout and replace it
			if a.Op == "silence_pooled" && (!w.member[h] || !w.up[h]) {
				continue // a node that left the ring may still have connections the proxy is about to close anyway
			}
			var target *fakecass.Conn
			for _, cn := range e.Cluster.Host(h).Conns() {
				if cn.IsRegistered() == (a.Op == "silence_control") {
					target = cn
				}
			}
			if a.Op == "silence_control" {
				for _, cn := range e.Cluster.RegisteredConns() {
					target = cn
				}
			}
			if target == nil {
				continue
			}
			t0 := time.Now()
			target.SetSilent(true)
			deadline := time.Now().Add(posWait)
			for !target.Closed() {
				if time.Now().After(deadline) {
					return evid.Failf("silent-connection-kept:"+a.Op, "a backend connection that stopped answering heartbeats %v ago (idle timeout %v) is still open", time.Since(t0), c16Idle)
				}
				time.Sleep(time.Millisecond)
			}
			if d := time.Since(t0); d < c16Idle-c16Heartbeat-10*time.Millisecond {
				return evid.Failf("silent-connection-closed-early", "%s: connection closed %v after it went silent, idle timeout is %v", what, d, c16Idle)
			}
		case "silence_inflight":
			// a request is in flight on a connection that then goes silent (no FIN/RST): the connection must still be
			// given up after the idle timeout and the idempotent request must be answered by another host
			if len(w.live()) < 2 {
				continue
			}
			tok := nextToken()
			e.Cluster.Script(tok, []fakecass.Outcome{{Kind: "silence"}})
			s := r.nextStream()
			from := r.c.NumFrames()
			f, _ := buildFrame(4, s, &message.Query{Query: "SELECT * FROM ks1.t WHERE k = '" + tok + "'", Options: &message.QueryOptions{Consistency: primitive.ConsistencyLevelOne}}, false, "", false)
			_ = r.c.SendFrame(f)
			if !e.Cluster.WaitAttempts(tok, 1, posWait) {
				return evid.Failf("probe-unanswered", "request never reached a backend")
			}
			at := e.Cluster.Attempts(tok)[0]
			for _, cn := range e.Cluster.Host(at.Host).Conns() {
				if cn.ID == at.Conn {
					cn.SetSilent(true)
				}
			}
			rp := r.c.WaitStream(s, from, 1, posWait)
			if rp == nil {
				return evid.Failf("hung-connection-never-replaced", "a request in flight on a backend connection that went silent was not answered within %v (idle timeout %v): the connection is never given up\n%s", posWait, c16Idle, proxyStacks())
			}
			if ri, err := r.reply(rp); err != nil || ri.Echo == nil {
				return evid.Failf("hung-connection-request-failed", "the idempotent request that was in flight on the silent connection was answered with %v %v", ri, err)
			}
		case "outage":
			// every node goes away: outage is reported and grows; it ends when a node is back
			for hh := 0; hh < nh; hh++ {
				if !e.Cluster.Host(hh).Rejecting() {
					e.Cluster.Host(hh).Stop()
				}
				w.up[hh] = false
			}
			deadline := time.Now().Add(posWait)
			for e.Proxy.OutageDuration() == 0 {
				if time.Now().After(deadline) {
					return evid.Failf("outage-not-reported", "all nodes are down but OutageDuration() is 0 after %v", posWait)
				}
				time.Sleep(time.Millisecond)
			}
			d1 := e.Proxy.OutageDuration()
			time.Sleep(15 * time.Millisecond)
			if d2 := e.Proxy.OutageDuration(); d2 <= d1 {
				return evid.Failf("outage-not-growing", "OutageDuration() went from %v to %v while all nodes are down", d1, d2)
			}
			for hh := 0; hh < nh; hh++ {
				if w.member[hh] && (hh%2 == a.N%2 || len(w.live()) == 0) {
					if err := e.Cluster.Host(hh).Start(); err != nil {
						return evid.Failf("harness-restart", "%v", err)
					}
					w.up[hh] = true
				}
			}
		case "sick_nodes":
			// the control connection is lost while every node accepts connections, STARTUP and REGISTER but fails the
			// proxy's system.local query (overloaded, still starting, no permission): no control connection exists, so an
			// outage must be reported, must never read zero and must keep growing until a node answers again
			if len(w.live()) == 0 {
				continue
			}
			kind := []string{"overloaded", "unauthorized", "server_error", "bootstrapping"}[a.N%4]
			for k := 0; k < 600; k++ {
				e.Cluster.QueueInternal("system_local", fakecass.Outcome{Kind: kind})
			}
			for _, cn := range e.Cluster.RegisteredConns() {
				cn.Close()
			}
			deadline := time.Now().Add(posWait)
			for e.Proxy.OutageDuration() == 0 {
				if time.Now().After(deadline) {
					e.Cluster.ClearInternal()
					return evid.Failf("outage-not-reported", "the control connection is lost and every node fails the system.local query (%s), but OutageDuration() is 0 after %v", kind, posWait)
				}
				time.Sleep(time.Millisecond)
			}
			prev := e.Proxy.OutageDuration()
			for t0 := time.Now(); time.Since(t0) < time.Duration(60+a.N%80)*time.Millisecond && e.Cluster.InternalPending() > 0; {
				time.Sleep(500 * time.Microsecond)
				d := e.Proxy.OutageDuration()
				if d < prev {
					e.Cluster.ClearInternal()
					return evid.Failf("outage-reset-without-control-connection", "OutageDuration() went from %v to %v although no node has answered the system.local query since the control connection was lost (%s)", prev, d, kind)
				}
				prev = d
			}
			e.Cluster.ClearInternal()
		case "backoff":
			// one node refuses connections for a while: attempts keep coming, never faster than the minimum delay
			if len(w.live()) < 2 || !w.member[h] || !w.up[h] {
				continue
			}
			host := e.Cluster.Host(h)
			host.SetReject(true)
			w.up[h] = false
			time.Sleep(time.Duration(120+a.N%200) * time.Millisecond)
			times := host.AcceptTimes()
			host.SetReject(false)
			w.up[h] = true
			w.emitTopology("up", h)
			// slots that retry: the pooled connections of this host (plus the control connection if it was here)
			slots := c.Conns + 1
			if len(times) == 0 {
				return evid.Failf("no-reconnect-attempt", "no connection attempt reached host %d in more than 120ms (reconnect delays are at most %v)", h, c16ReconMax)
			}
			window := times[len(times)-1].Sub(times[0])
			minDelay := c16ReconBase
			if c16ReconMax < minDelay {
				minDelay = c16ReconMax
			}
			maxAttempts := slots*(int(window/minDelay)+1) + slots
			if len(times) > maxAttempts {
				return evid.Failf("reconnect-too-fast", "%d connection attempts reached host %d within %v: more than %d slots can make with a minimum delay of %v", len(times), h, window, slots, minDelay)
			}
		}
		if f := w.awaitConvergence(what); f != nil {
			return f
		}
		if len(w.live()) > 0 {
			// the backend sees the new control connection register a moment before the proxy has finished reading
			// the system tables through it and cleared the outage
			deadline := time.Now().Add(2 * time.Second)
			for e.Proxy.OutageDuration() != 0 {
				if time.Now().After(deadline) {
					return evid.Failf("outage-not-cleared", "after %s a control connection has existed for 2s but OutageDuration() is still %v", what, e.Proxy.OutageDuration())
				}
				time.Sleep(time.Millisecond)
			}
		}
	}
	return nil
}

func c16Gen(rt *rapid.T) c16Case {
	c := c16Case{Hosts: rapid.IntRange(1, 4).Draw(rt, "hosts"), Conns: rapid.IntRange(1, 2).Draw(rt, "conns")}
	n := rapid.IntRange(1, evid.Pick(8, 15)).Draw(rt, "nactions")
	ops := []string{"add_node", "remove_node", "restart_node", "drop_pooled", "drop_pooled", "drop_control", "drop_all", "drop_several", "silence_pooled", "silence_control",
		"silence_inflight", "outage", "backoff", "event_then_failover", "partial_pool_loss", "partial_pool_loss", "sick_nodes"}
	added := 0
	for i := 0; i < n; i++ {
		a := c16Action{Op: ops[rapid.IntRange(0, len(ops)-1).Draw(rt, "op")], Host: rapid.IntRange(0, 7).Draw(rt, "host"), Conn: rapid.IntRange(0, 3).Draw(rt, "conn"), N: rapid.IntRange(0, 400).Draw(rt, "n")}
		if a.Op == "add_node" || a.Op == "event_then_failover" {
			if added >= 3 {
				a.Op = "drop_pooled"
			} else {
				added++
			}
		}
		c.Actions = append(c.Actions, a)
	}
	if rapid.IntRange(0, 3).Draw(rt, "failed_use") == 0 {
		// sessions that never came up, followed by membership changes only (the fault actions measure connection
		// counts and dial rates of the healthy sessions, which idle retries of a refused session would blur)
		c.FailedUse = rapid.IntRange(1, 3).Draw(rt, "nfailed")
		for i := range c.Actions {
			switch c.Actions[i].Op {
			case "add_node", "remove_node", "restart_node", "drop_control", "event_then_failover":
			default:
				c.Actions[i].Op = []string{"remove_node", "add_node", "restart_node"}[i%3]
				if c.Actions[i].Op == "add_node" {
					if added >= 3 {
						c.Actions[i].Op = "remove_node"
					} else {
						added++
					}
				}
			}
		}
	}
	return c
}

var c16ReadinessTries int

// (c) the readiness endpoint of the real binary
func c16Readiness() *evid.Fail {
	bin := os.Getenv("VERIF_BIN")
	if bin == "" {
		return evid.Failf("harness-bin", "VERIF_BIN not set")
	}
	cl, err := fakecass.New(2)
	if err != nil {
		return evid.Failf("harness-env", "%v", err)
	}
	defer cl.Close()
	bind := "127.0.0.1:0"
	httpBind := fmt.Sprintf("127.0.0.1:%d", freePort())
	out := newSyncBuf()
	defer out.Close()
	cmd := exec.Command(bin, "--bind", bind, "--contact-points", cl.HostIP(0), "--port", fmt.Sprint(cl.Port), "--health-check", "--http-bind", httpBind, "--readiness-timeout", "300ms",
		"--heartbeat-interval", "100ms", "--idle-timeout", "300ms", "--connect-timeout", "300ms")
	cmd.SysProcAttr = &syscall.SysProcAttr{Pdeathsig: syscall.SIGKILL} // never outlive the test process
	cmd.Env = []string{"PATH=/usr/bin:/bin", "HOME=/tmp"}
	cmd.Stdout, cmd.Stderr = out.File(), out.File()
	if err := startChild(cmd); err != nil {
		return evid.Failf("harness-start", "%v", err)
	}
	done := make(chan struct{})
	go func() { _ = cmd.Wait(); close(done) }()
	defer func() { _ = cmd.Process.Kill(); <-done }()
	get := func() (int, string) {
		c := http.Client{Timeout: 2 * time.Second}
		resp, err := c.Get("http://" + httpBind + "/readiness")
		if err != nil {
			return -1, err.Error()
		}
		defer resp.Body.Close()
		b, _ := io.ReadAll(resp.Body)
		var v struct{ OutageDuration string }
		_ = json.Unmarshal(b, &v)
		return resp.StatusCode, v.OutageDuration
	}
	waitFor := func(want int, d time.Duration) (int, string) {
		deadline := time.Now().Add(d)
		var code int
		var od string
		for time.Now().Before(deadline) {
			if code, od = get(); code == want {
				return code, od
			}
			time.Sleep(20 * time.Millisecond)
		}
		return code, od
	}
	if code, _ := waitFor(200, 10*time.Second); code != 200 && strings.Contains(out.String(), "address already in use") && c16ReadinessTries < 3 {
		c16ReadinessTries++ // somebody else took the HTTP port between the harness choosing it and the child binding it
		return c16Readiness()
	}
	if code, od := waitFor(200, 10*time.Second); code != 200 {
		return evid.Failf("readiness-at-start", "readiness is %d (outage %s) with a control connection established\n%s", code, od, out.String())
	}
	if _, od := get(); od != "0s" {
		return evid.Failf("readiness-outage-nonzero", "outage duration %q while a control connection exists", od)
	}
	cl.Host(0).Stop()
	cl.Host(1).Stop()
	if code, od := waitFor(503, 10*time.Second); code != 503 {
		return evid.Failf("readiness-not-failing", "all nodes are down for longer than the readiness timeout but readiness is %d (outage %s)", code, od)
	}
	_ = cl.Host(1).Start()
	if code, od := waitFor(200, 20*time.Second); code != 200 {
		return evid.Failf("readiness-not-recovering", "a node is back but readiness is still %d (outage %s) after 20s", code, od)
	}
	return nil
}

func TestC16(t *testing.T) {
	rec := evid.New("C16", "fault_enumeration",
		"(a) the reconnect-delay calculator: base/max log-uniform in [1ms, 1h] plus configurations where base+2^k ms lands just below max, sequences of NextDelay/Reset/Clone up to 200 steps, envelope oracle (bounds, monotone apart from jitter, reset, clone independence); "+
			"(b) sequences of backend faults against an in-process proxy with millisecond timers (heartbeat 20ms, idle 90ms, reconnect 5..30ms, refresh window 25ms) over 1..4 hosts x 1..2 connections: nodes added (with a topology event, also with the control connection lost inside the refresh window), removed, restarted, pooled/control connections dropped singly and all at once, connections that go silent (idle or with a request in flight), total outage and partial return, a node refusing connections (attempt rate); after every action the check waits for convergence (routing of probe requests == live members, pooled connection counts, exactly one control connection on a live member) within 400x the timers, and checks outage reporting; "+
			"(c) the readiness endpoint of the real binary across an outage; "+
			"non-trivial = a sequence with a membership change and a connection fault, or simultaneous drops; distinct by case content")
	defer finish(t, rec)
	rec.SetJournalAll(true)
	rec.Assume("the refresh window (10s, not configurable through proxy.Config) is shortened through the verif hook",
		"liveness is checked as a bounded eventuality: 400x the configured timers (at most 12s), with a stall watchdog that turns a missed bound on a stalled machine into 'inconclusive'",
		"reconnect base delays are generated in [1ms, 1h], caps up to 30 days; bases >= 2^44 ns (where 1ms<<attempts overflows on the unchanged tree) are outside the generated domain")

	runProp(t, rec, "backoff", perShard(evid.Pick(20000, 2000000)), func(rt *rapid.T) c16Backoff {
		var c c16Backoff
		logu := func(label string) int64 {
			e := rapid.Float64Range(0, 1).Draw(rt, label)
			return int64(float64(time.Millisecond) * pow(3.6e6, e))
		}
		switch rapid.IntRange(0, 4).Draw(rt, "class") {
		case 4: // a cap far above the base (days): the exponential part has a long way to go
			c.BaseNs = logu("base")
			c.MaxNs = int64(float64(time.Hour) * pow(720, rapid.Float64Range(0, 1).Draw(rt, "maxhours")))
			if c.MaxNs < c.BaseNs {
				c.MaxNs = c.BaseNs
			}
		case 0, 1:
			a, b := logu("a"), logu("b")
			if a > b {
				a, b = b, a
			}
			c.BaseNs, c.MaxNs = a, b
		case 2: // base + 2^k ms lands just below max
			c.BaseNs = logu("base")
			k := rapid.IntRange(0, 20).Draw(rt, "k")
			c.MaxNs = c.BaseNs + int64(time.Millisecond)<<uint(k) + int64(rapid.IntRange(0, 120).Draw(rt, "slack"))*int64(time.Millisecond)
		case 3: // base above max (labelled separately)
			a, b := logu("a"), logu("b")
			if a < b {
				a, b = b, a
			}
			c.BaseNs, c.MaxNs = a, b
		}
		n := rapid.IntRange(1, 200).Draw(rt, "nops")
		uninterrupted := rapid.IntRange(0, 3).Draw(rt, "uninterrupted") == 0 // a long outage: attempt after attempt, no success in between
		for i := 0; i < n; i++ {
			if uninterrupted {
				c.Ops = append(c.Ops, "next")
				continue
			}
			c.Ops = append(c.Ops, rapid.SampledFrom([]string{"next", "next", "next", "next", "next", "next", "reset", "clone"}).Draw(rt, "op"))
		}
		key := ""
		if len(c.Ops) > 3 {
			key = fmt.Sprintf("b:%d:%d:%d", c.BaseNs, c.MaxNs, len(c.Ops))
		}
		rec.Case(key, "backoff:"+map[bool]string{true: "base<=max", false: "base>max"}[c.BaseNs <= c.MaxNs])
		if rec.Evals()%4000 == 1 {
			rec.Sample(c)
		}
		return c
	}, c16BackoffCheck)

	runProp(t, rec, "healing", perShard(evid.Pick(160, 8000)), func(rt *rapid.T) c16Case {
		c := c16Gen(rt)
		var labels []string
		membership, fault := false, false
		for _, a := range c.Actions {
			labels = append(labels, "op:"+a.Op)
			if c.FailedUse > 0 {
				labels = append(labels, "after-failed-use:"+a.Op)
			}
			switch a.Op {
			case "add_node", "remove_node", "restart_node", "event_then_failover", "outage", "backoff", "sick_nodes":
				membership = true
			}
			if strings.HasPrefix(a.Op, "drop") || strings.HasPrefix(a.Op, "silence") || a.Op == "event_then_failover" {
				fault = true
			}
		}
		key := ""
		if membership && fault {
			key = js(c)
		}
		rec.Case(key, append(labels, fmt.Sprintf("hosts:%d", c.Hosts), fmt.Sprintf("conns:%d", c.Conns))...)
		rec.Sample(c)
		return c
	}, c16Check)

	if shard, _ := evid.Shard(); shard == 0 {
		rec.Case("readiness-endpoint", "readiness")
		if f := c16Readiness(); f != nil && !rec.Known(f) {
			rec.Violation("readiness", map[string]string{"scenario": "readiness across an outage"}, f)
			t.Errorf("%v", f)
		}
	}
}

func pow(b, e float64) float64 { return math.Pow(b, e) }

var _ = rawcli.Dial
