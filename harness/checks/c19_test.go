package checks

import (
	"archive/zip"
	"bytes"
	"context"
	"crypto/ecdsa"
	"crypto/elliptic"
	"crypto/rand"
	crand "crypto/rand"
	"crypto/tls"
	"crypto/x509"
	"crypto/x509/pkix"
	"encoding/json"
	"encoding/pem"
	"fmt"
	"math/big"
	"net"
	"strings"
	"sync"
	"testing"
	"time"

	"github.com/datastax/cql-proxy/astra"
	"github.com/datastax/cql-proxy/proxycore"
	"github.com/datastax/go-cassandra-native-protocol/datatype"
	"github.com/datastax/go-cassandra-native-protocol/message"
	"github.com/datastax/go-cassandra-native-protocol/primitive"
	"pgregory.net/rapid"

	"verif/harness/evid"
	"verif/harness/wire"
)

// ---- C19: Astra bundle connections authenticate the server and identify the client ----

// A stub DNS server makes every generated host name resolve to 127.0.0.1 inside this
// process only (net.DefaultResolver is pointed at it).
var dnsOnce sync.Once

func startStubDNS() {
	dnsOnce.Do(func() {
		pc, err := net.ListenPacket("udp", "127.0.0.1:0")
		if err != nil {
			panic(err)
		}
		addr := pc.LocalAddr().String()
		go func() {
			buf := make([]byte, 1500)
			for {
				n, from, err := pc.ReadFrom(buf)
				if err != nil {
					return
				}
				if n < 12 {
					continue
				}
				q := buf[:n]
				// find the end of the (single) question
				i := 12
				for i < n && q[i] != 0 {
					i += int(q[i]) + 1
				}
				if i+5 > n {
					continue
				}
				qtype := int(q[i+1])<<8 | int(q[i+2])
				qend := i + 5
				resp := make([]byte, 0, qend+16)
				resp = append(resp, q[0], q[1], 0x81, 0x80, 0, 1, 0, 0, 0, 0, 0, 0)
				resp = append(resp, q[12:qend]...)
				if qtype == 1 { // A
					resp[7] = 1
					resp = append(resp, 0xc0, 0x0c, 0, 1, 0, 1, 0, 0, 0, 30, 0, 4, 127, 0, 0, 1)
				}
				_, _ = pc.WriteTo(resp, from)
			}
		}()
		net.DefaultResolver = &net.Resolver{PreferGo: true, Dial: func(ctx context.Context, network, _ string) (net.Conn, error) {
			var d net.Dialer
			return d.DialContext(ctx, "udp", addr)
		}}
	})
}

// ---- a small PKI ----

type ca struct {
	cert *x509.Certificate
	key  *ecdsa.PrivateKey
	der  []byte
}

var (
	pkiOnce                         sync.Once
	bundleCA, otherCA, intermediate *ca
	forgedCA                        *ca // the bundle CA's subject name with another key
	clientCertPEM, clientKeyPEM     []byte
	clientCertDER                   []byte
	serialCounter                   int64
)

func newKey() *ecdsa.PrivateKey {
	k, err := ecdsa.GenerateKey(elliptic.P256(), rand.Reader)
	if err != nil {
		panic(err)
	}
	return k
}

func nextSerial() *big.Int { serialCounter++; return big.NewInt(1000 + serialCounter) }

func makeCA(cn string, parent *ca) *ca {
	k := newKey()
	tpl := &x509.Certificate{SerialNumber: nextSerial(), Subject: pkix.Name{CommonName: cn, Organization: []string{"verif"}},
		NotBefore: time.Now().Add(-24 * time.Hour), NotAfter: time.Now().Add(20 * 365 * 24 * time.Hour),
		IsCA: true, BasicConstraintsValid: true, KeyUsage: x509.KeyUsageCertSign | x509.KeyUsageDigitalSignature}
	signer, signerKey := tpl, k
	if parent != nil {
		signer, signerKey = parent.cert, parent.key
	}
	der, err := x509.CreateCertificate(rand.Reader, tpl, signer, &k.PublicKey, signerKey)
	if err != nil {
		panic(err)
	}
	c, _ := x509.ParseCertificate(der)
	return &ca{cert: c, key: k, der: der}
}

func initPKI() {
	pkiOnce.Do(func() {
		bundleCA = makeCA("bundle CA", nil)
		otherCA = makeCA("other CA", nil)
		intermediate = makeCA("intermediate CA", bundleCA)
		forgedCA = makeCA("bundle CA", nil) // same subject, different key
		ck := newKey()
		tpl := &x509.Certificate{SerialNumber: nextSerial(), Subject: pkix.Name{CommonName: "bundle client"}, NotBefore: time.Now().Add(-time.Hour), NotAfter: time.Now().Add(10 * 365 * 24 * time.Hour),
			KeyUsage: x509.KeyUsageDigitalSignature, ExtKeyUsage: []x509.ExtKeyUsage{x509.ExtKeyUsageClientAuth}}
		der, err := x509.CreateCertificate(rand.Reader, tpl, bundleCA.cert, &ck.PublicKey, bundleCA.key)
		if err != nil {
			panic(err)
		}
		clientCertDER = der
		clientCertPEM = pem.EncodeToMemory(&pem.Block{Type: "CERTIFICATE", Bytes: der})
		kb, _ := x509.MarshalECPrivateKey(ck)
		clientKeyPEM = pem.EncodeToMemory(&pem.Block{Type: "EC PRIVATE KEY", Bytes: kb})
	})
}

type c19Case struct {
	Host   string   `json:"bundle_host"`
	Kind   string   `json:"chain_kind"`
	Target string   `json:"target"` // metadata | node | node-from-row
	NodeID string   `json:"node_id"`
	Others []string `json:"other_contact_points,omitempty"` // further contact points listed by the metadata service
	Pick   int      `json:"pick,omitempty"`                 // which endpoint is connected
	Delta  int64    `json:"validity_delta_seconds,omitempty"`
	SAN    string   `json:"san,omitempty"` // the name the server certificate carries
	// SwapTo (valid node chains only): after the first, fully verified connection the same server - same address,
	// same session-ticket keys - starts presenting a chain of this (invalid) kind; the next connection made with the
	// same endpoint object must be refused like any other connection to such a server
	SwapTo string `json:"then_server_presents,omitempty"`
	// Redirect (metadata target, valid chain): the genuine metadata service answers 307 to another server whose
	// certificate - issued by the bundle's CA - is for a different name; following the redirect is a TLS connection
	// to "the metadata service" all the same and has to be verified for the bundle's host name
	Redirect bool `json:"metadata_redirects_to_other_name,omitempty"`
}

var c19ValidKinds = map[string]bool{"valid": true, "valid-intermediate-sent": true, "valid-wildcard": true, "expires-soon": true}

// serverChain builds the certificate chain a server of the given kind presents for host.
func serverChain(c c19Case) tls.Certificate {
	k := newKey()
	tpl := &x509.Certificate{SerialNumber: nextSerial(), Subject: pkix.Name{CommonName: "server"}, NotBefore: time.Now().Add(-time.Hour), NotAfter: time.Now().Add(365 * 24 * time.Hour),
		KeyUsage: x509.KeyUsageDigitalSignature, ExtKeyUsage: []x509.ExtKeyUsage{x509.ExtKeyUsageServerAuth}}
	setName := func(n string) {
		if ip := net.ParseIP(n); ip != nil {
			tpl.IPAddresses = []net.IP{ip}
		} else {
			tpl.DNSNames = []string{n}
		}
	}
	setName(c.Host)
	issuer := bundleCA
	chainExtra := [][]byte{}
	selfSigned := false
	switch c.Kind {
	case "valid":
	case "valid-wildcard":
		setName(c.SAN)
	case "valid-intermediate-sent":
		issuer = intermediate
		chainExtra = append(chainExtra, intermediate.der)
	case "intermediate-missing":
		issuer = intermediate
	case "other-ca":
		issuer = otherCA
	case "forged-issuer-name":
		issuer = forgedCA
	case "self-signed":
		selfSigned = true
	case "stuffed-selfsigned-ca", "stuffed-selfsigned", "stuffed-other-ca":
		// chain stuffing: the server proves possession of the key of an invalid first certificate and appends a genuine
		// certificate for the host (public material anybody can copy; the server does not hold its key)
		gk := newKey()
		gtpl := *tpl
		gtpl.SerialNumber = nextSerial()
		gder, gerr := x509.CreateCertificate(rand.Reader, &gtpl, bundleCA.cert, &gk.PublicKey, bundleCA.key)
		if gerr != nil {
			panic(gerr)
		}
		chainExtra = append(chainExtra, gder)
		switch c.Kind {
		case "stuffed-selfsigned-ca":
			selfSigned = true
			tpl.IsCA, tpl.BasicConstraintsValid = true, true
			tpl.KeyUsage |= x509.KeyUsageCertSign
		case "stuffed-selfsigned":
			selfSigned = true
		case "stuffed-other-ca":
			issuer = otherCA
			chainExtra = append(chainExtra, bundleCA.der)
		}
	case "wrong-name", "name-only-in-cn":
		tpl.DNSNames, tpl.IPAddresses = nil, nil
		if c.Kind == "name-only-in-cn" {
			tpl.Subject.CommonName = c.Host
			tpl.DNSNames = []string{"unrelated.example.org"}
		} else {
			setName(c.SAN)
		}
	case "expires-soon": // valid now, expired two seconds from now
		tpl.NotAfter = time.Now().Add(2 * time.Second).Truncate(time.Second)
	case "expired":
		tpl.NotBefore = time.Now().Add(-time.Duration(c.Delta)*time.Second - 24*time.Hour)
		tpl.NotAfter = time.Now().Add(-time.Duration(c.Delta) * time.Second)
	case "not-yet-valid":
		tpl.NotBefore = time.Now().Add(time.Duration(c.Delta) * time.Second)
		tpl.NotAfter = time.Now().Add(time.Duration(c.Delta)*time.Second + 24*time.Hour)
	}
	var der []byte
	var err error
	if selfSigned {
		der, err = x509.CreateCertificate(rand.Reader, tpl, tpl, &k.PublicKey, k)
	} else {
		der, err = x509.CreateCertificate(rand.Reader, tpl, issuer.cert, &k.PublicKey, issuer.key)
	}
	if err != nil {
		panic(err)
	}
	return tls.Certificate{Certificate: append([][]byte{der}, chainExtra...), PrivateKey: k}
}

// tlsProbe is a TLS server that records what a client did.
type tlsProbe struct {
	ln       net.Listener
	mu       sync.Mutex
	chain    tls.Certificate
	ticket   [32]byte // one session-ticket key for the server's lifetime, as a real server has
	sni      []string
	certs    [][]byte
	appBytes [][]byte
	hsOK     int
	wg       sync.WaitGroup
}

// startProbe serves chain; respond builds the reply to the first application bytes (nil = none).
func startProbe(chain tls.Certificate, respond func(first []byte) []byte) (*tlsProbe, error) {
	ln, err := net.Listen("tcp", "127.0.0.1:0")
	if err != nil {
		return nil, err
	}
	p := &tlsProbe{ln: ln, chain: chain}
	_, _ = crand.Read(p.ticket[:])
	go func() {
		for {
			nc, err := ln.Accept()
			if err != nil {
				return
			}
			p.wg.Add(1)
			go func() {
				defer p.wg.Done()
				defer nc.Close()
				p.mu.Lock()
				cur := p.chain
				p.mu.Unlock()
				cfg := &tls.Config{Certificates: []tls.Certificate{cur}, ClientAuth: tls.RequestClientCert,
					GetConfigForClient: func(h *tls.ClientHelloInfo) (*tls.Config, error) {
						p.mu.Lock()
						p.sni = append(p.sni, h.ServerName)
						p.mu.Unlock()
						return nil, nil
					}}
				cfg.SetSessionTicketKeys([][32]byte{p.ticket})
				srv := tls.Server(nc, cfg)
				_ = nc.SetDeadline(time.Now().Add(5 * time.Second))
				if err := srv.Handshake(); err != nil {
					return
				}
				p.mu.Lock()
				p.hsOK++
				if cs := srv.ConnectionState().PeerCertificates; len(cs) > 0 {
					p.certs = append(p.certs, cs[0].Raw)
				} else {
					p.certs = append(p.certs, nil)
				}
				p.mu.Unlock()
				buf := make([]byte, 4096)
				n, _ := srv.Read(buf)
				if n > 0 {
					p.mu.Lock()
					p.appBytes = append(p.appBytes, append([]byte(nil), buf[:n]...))
					p.mu.Unlock()
					if respond != nil {
						if r := respond(buf[:n]); r != nil {
							_, _ = srv.Write(r)
							// keep reading (e.g. further CQL frames) until the peer closes
							for {
								if _, err := srv.Read(buf); err != nil {
									return
								}
							}
						}
					}
				}
			}()
		}
	}()
	return p, nil
}

func (p *tlsProbe) setChain(c tls.Certificate) { p.mu.Lock(); p.chain = c; p.mu.Unlock() }
func (p *tlsProbe) port() int                  { return p.ln.Addr().(*net.TCPAddr).Port }
func (p *tlsProbe) close()                     { p.ln.Close(); p.wg.Wait() }

func makeBundle(host string, port int) (*astra.Bundle, error) {
	return makeBundleCA(host, port, bundleCA)
}

func makeBundleCA(host string, port int, root *ca) (*astra.Bundle, error) {
	var buf bytes.Buffer
	zw := zip.NewWriter(&buf)
	add := func(name string, b []byte) {
		w, _ := zw.Create(name)
		_, _ = w.Write(b)
	}
	cfg, _ := json.Marshal(map[string]interface{}{"host": host, "port": port})
	add("config.json", cfg)
	add("ca.crt", pem.EncodeToMemory(&pem.Block{Type: "CERTIFICATE", Bytes: root.der}))
	add("cert", clientCertPEM)
	add("key", clientKeyPEM)
	zw.Close()
	zr, err := zip.NewReader(bytes.NewReader(buf.Bytes()), int64(buf.Len()))
	if err != nil {
		return nil, err
	}
	return astra.LoadBundleZip(zr)
}

func cqlReady(first []byte) []byte {
	// answer a CQL STARTUP with READY on the same stream
	if len(first) < 9 {
		return nil
	}
	f, err := wire.Msg(primitive.ProtocolVersion(first[0]&0x7f), true, int16(uint16(first[2])<<8|uint16(first[3])), &message.Ready{}, "")
	if err != nil {
		return nil
	}
	return f.Bytes()
}

func c19Check(c c19Case) *evid.Fail {
	initPKI()
	startStubDNS()
	valid := c19ValidKinds[c.Kind]
	goodChain := serverChain(c19Case{Host: c.Host, Kind: "valid"})
	badChain := serverChain(c)
	// the database node
	nodeChain := goodChain
	if c.Target != "metadata" {
		nodeChain = badChain
	}
	node, err := startProbe(nodeChain, cqlReady)
	if err != nil {
		return evid.Failf("harness-probe", "%v", err)
	}
	defer node.close()
	// the metadata service
	mdChain := goodChain
	if c.Target == "metadata" {
		mdChain = badChain
	}
	var redir *tlsProbe
	if c.Redirect {
		rc := c
		rc.Kind, rc.SAN = "wrong-name", "elsewhere-"+c.Host
		redir, err = startProbe(serverChain(rc), func(first []byte) []byte {
			body, _ := json.Marshal(map[string]interface{}{"version": 1, "region": "", "contact_info": map[string]interface{}{
				"type": "sni_proxy", "local_dc": "dc1", "sni_proxy_address": fmt.Sprintf("node.%s:%d", strings.TrimPrefix(c.Host, "*."), node.port()), "contact_points": []string{c.NodeID}}})
			return []byte(fmt.Sprintf("HTTP/1.1 200 OK\r\nContent-Type: application/json\r\nContent-Length: %d\r\nConnection: close\r\n\r\n%s", len(body), body))
		})
		if err != nil {
			return evid.Failf("harness-probe", "%v", err)
		}
		defer redir.close()
	}
	md, err := startProbe(mdChain, func(first []byte) []byte {
		if c.Redirect {
			return []byte(fmt.Sprintf("HTTP/1.1 307 Temporary Redirect\r\nLocation: https://elsewhere-%s:%d/metadata\r\nContent-Length: 0\r\nConnection: close\r\n\r\n", c.Host, redir.port()))
		}
		body, _ := json.Marshal(map[string]interface{}{"version": 1, "region": "", "contact_info": map[string]interface{}{
			"type": "sni_proxy", "local_dc": "dc1", "sni_proxy_address": fmt.Sprintf("node.%s:%d", strings.TrimPrefix(c.Host, "*."), node.port()), "contact_points": append([]string{c.NodeID}, c.Others...)}})
		return []byte(fmt.Sprintf("HTTP/1.1 200 OK\r\nContent-Type: application/json\r\nContent-Length: %d\r\nConnection: close\r\n\r\n%s", len(body), body))
	})
	if err != nil {
		return evid.Failf("harness-probe", "%v", err)
	}
	defer md.close()
	// another bundle (another database, another CA) is loaded in the same process, before and after
	if _, err := makeBundleCA("other."+c.Host, md.port(), otherCA); err != nil {
		return evid.Failf("bundle-load", "LoadBundleZip: %v", err)
	}
	bundle, err := makeBundle(c.Host, md.port())
	if err != nil {
		return evid.Failf("bundle-load", "LoadBundleZip: %v", err)
	}
	if _, err := makeBundleCA("third."+c.Host, md.port(), forgedCA); err != nil {
		return evid.Failf("bundle-load", "LoadBundleZip: %v", err)
	}
	what := fmt.Sprintf("%s server presenting chain %q for bundle host %q (SAN %q, delta %ds)", c.Target, c.Kind, c.Host, c.SAN, c.Delta)

	// differential oracle: a plain crypto/tls client with the same roots and ServerName = bundle host
	plainAccepts := func(port int) bool {
		// roots: the bundle's CA only, built here (not the pool the code under test maintains)
		roots := x509.NewCertPool()
		roots.AddCert(bundleCA.cert)
		cfg := &tls.Config{RootCAs: roots, ServerName: c.Host, Certificates: bundle.TLSConfig.Certificates}
		conn, err := tls.DialWithDialer(&net.Dialer{Timeout: 3 * time.Second}, "tcp", fmt.Sprintf("127.0.0.1:%d", port), cfg)
		if err != nil {
			return false
		}
		conn.Close()
		return true
	}

	ctx, cancel := context.WithTimeout(context.Background(), 8*time.Second)
	defer cancel()
	resolver := astra.NewResolver(bundle, 5*time.Second)
	eps, rerr := resolver.Resolve(ctx)
	if c.Target == "metadata" {
		ref := plainAccepts(md.port())
		if ref != valid {
			return evid.Failf("harness-oracles-disagree", "construction says valid=%v but a plain crypto/tls client says %v for %s", valid, ref, what)
		}
		md.mu.Lock()
		app := len(md.appBytes)
		md.mu.Unlock()
		// the plain client above sent no application data, so any application bytes came from the resolver
		if c.Redirect {
			redir.mu.Lock()
			rapp, rhs := len(redir.appBytes), redir.hsOK
			redir.mu.Unlock()
			if rerr == nil || rapp > 0 || rhs > 0 {
				return evid.Failf("invalid-server-accepted:metadata:redirect-target-other-name", "the metadata service redirected to a server whose certificate is for %q, not for the bundle host %q: Resolve err=%v, that server completed %d handshakes and received %d requests", "elsewhere-"+c.Host, c.Host, rerr, rhs, rapp)
			}
			return nil
		}
		if valid {
			if rerr != nil {
				return evid.Failf("valid-server-rejected:metadata:"+c.Kind, "Resolve failed against a %s: %v", what, rerr)
			}
			if app == 0 {
				return evid.Failf("no-request", "Resolve succeeded without sending a request?")
			}
			md.mu.Lock()
			defer md.mu.Unlock()
			if len(md.certs) == 0 || !bytes.Equal(md.certs[0], clientCertDER) {
				return evid.Failf("client-cert-missing:metadata", "the metadata service did not receive the bundle's client certificate (%s)", what)
			}
			return nil
		}
		if rerr == nil {
			return evid.Failf("invalid-server-accepted:metadata:"+c.Kind, "Resolve accepted a %s", what)
		}
		if app > 0 {
			return evid.Failf("bytes-sent-to-invalid-server:metadata:"+c.Kind, "application data (an HTTP request) was sent to a %s", what)
		}
		return nil
	}
	if rerr != nil || len(eps) != 1+len(c.Others) {
		return evid.Failf("harness-resolve", "Resolve against a valid metadata service failed: %v (%d endpoints)", rerr, len(eps))
	}
	all := append([]string{c.NodeID}, c.Others...)
	ep := eps[c.Pick%len(eps)]
	wantSNI := all[c.Pick%len(eps)]
	if c.Target == "node-from-row" {
		// the endpoint of a host discovered in the peers table: SNI = its host id
		var id primitive.UUID
		copy(id[:], []byte(c.NodeID + "0123456789abcdef")[:16])
		row := proxycore.NewResultSet(&message.RowsResult{
			Metadata: &message.RowsMetadata{ColumnCount: 2, Columns: []*message.ColumnMetadata{{Keyspace: "system", Table: "peers", Name: "host_id", Type: datatype.Uuid}, {Keyspace: "system", Table: "peers", Name: "data_center", Type: datatype.Varchar}}},
			Data:     message.RowSet{message.Row{id[:], []byte("dc1")}}}, primitive.ProtocolVersion4).Row(0)
		ep2, err := resolver.NewEndpoint(row)
		if err != nil {
			return evid.Failf("harness-newendpoint", "NewEndpoint: %v", err)
		}
		ep = ep2
		wantSNI = id.String()
	}
	ref := plainAccepts(node.port())
	if ref != valid {
		return evid.Failf("harness-oracles-disagree", "construction says valid=%v but a plain crypto/tls client says %v for %s", valid, ref, what)
	}
	node.mu.Lock()
	baseSNI := len(node.sni)
	node.mu.Unlock()
	cc, cerr := proxycore.ConnectClient(ctx, ep, proxycore.ClientConnConfig{})
	var herr error
	if cerr == nil {
		_, herr = cc.Handshake(ctx, primitive.ProtocolVersion4, nil)
		_ = cc.Close()
	}
	time.Sleep(2 * time.Millisecond)
	node.mu.Lock()
	defer node.mu.Unlock()
	app := len(node.appBytes)
	if valid {
		if cerr != nil {
			return evid.Failf("valid-server-rejected:node:"+c.Kind, "connecting to a %s failed: %v", what, cerr)
		}
		if herr != nil {
			return evid.Failf("valid-server-handshake", "CQL handshake with a %s failed: %v", what, herr)
		}
		if len(node.sni) <= baseSNI || node.sni[len(node.sni)-1] != wantSNI {
			return evid.Failf("wrong-sni", "the node saw SNI %v, expected %q (%s)", node.sni[baseSNI:], wantSNI, what)
		}
		if len(node.certs) == 0 || !bytes.Equal(node.certs[len(node.certs)-1], clientCertDER) {
			return evid.Failf("client-cert-missing:node", "the node did not receive the bundle's client certificate (%s)", what)
		}
		if app == 0 || node.appBytes[app-1][4] != byte(primitive.OpCodeStartup) {
			return evid.Failf("no-startup", "the node did not receive a CQL STARTUP after the TLS handshake (%s)", what)
		}
		if c.SwapTo != "" {
			// the server changes its mind about who it is; the endpoint object (and whatever TLS state it carries
			// from the verified connection) is used again
			sw := c
			sw.Kind = c.SwapTo
			node.mu.Unlock()
			node.setChain(serverChain(sw))
			ctx2, cancel2 := context.WithTimeout(context.Background(), 5*time.Second)
			cc2, err2 := proxycore.ConnectClient(ctx2, ep, proxycore.ClientConnConfig{})
			if err2 == nil {
				_, _ = cc2.Handshake(ctx2, primitive.ProtocolVersion4, nil)
				_ = cc2.Close()
			}
			cancel2()
			time.Sleep(2 * time.Millisecond)
			node.mu.Lock()
			if err2 == nil {
				return evid.Failf("invalid-server-accepted:node:after-verified-connection:"+c.SwapTo, "after a verified connection, a second connection with the same endpoint accepted the same server presenting chain %q (%s)", c.SwapTo, what)
			}
			if len(node.appBytes) > app {
				return evid.Failf("bytes-sent-to-invalid-server:node:after-verified-connection:"+c.SwapTo, "CQL bytes were sent to a server presenting chain %q after an earlier verified connection", c.SwapTo)
			}
			return nil
		}
		if c.Kind == "expires-soon" {
			// the same endpoint is used again after the certificate has expired (a reconnect)
			leaf, _ := x509.ParseCertificate(nodeChain.Certificate[0])
			node.mu.Unlock()
			time.Sleep(time.Until(leaf.NotAfter) + 1200*time.Millisecond)
			ctx2, cancel2 := context.WithTimeout(context.Background(), 5*time.Second)
			cc2, err2 := proxycore.ConnectClient(ctx2, ep, proxycore.ClientConnConfig{})
			if err2 == nil {
				_, _ = cc2.Handshake(ctx2, primitive.ProtocolVersion4, nil)
				_ = cc2.Close()
			}
			cancel2()
			time.Sleep(2 * time.Millisecond)
			node.mu.Lock()
			if err2 == nil {
				return evid.Failf("invalid-server-accepted:node:expired-after-endpoint-creation", "a reconnect on the same endpoint accepted a certificate that had expired in the meantime (%s)", what)
			}
			if len(node.appBytes) > app {
				return evid.Failf("bytes-sent-to-invalid-server:node:expired-after-endpoint-creation", "CQL bytes were sent to a node whose certificate had expired since the endpoint was created")
			}
		}
		return nil
	}
	if cerr == nil {
		return evid.Failf("invalid-server-accepted:node:"+c.Kind, "a connection to a %s was accepted (handshake err %v)", what, herr)
	}
	if app > 0 {
		return evid.Failf("bytes-sent-to-invalid-server:node:"+c.Kind, "CQL bytes were sent to a %s", what)
	}
	return nil
}

func c19GenHost(rt *rapid.T) string {
	labels := []string{"db", "astra", "datastax", "com", "example", "eu-west-1", "apps", "a1b2c3", "x"}
	n := rapid.IntRange(2, 4).Draw(rt, "nlabels")
	var parts []string
	for i := 0; i < n; i++ {
		parts = append(parts, labels[rapid.IntRange(0, len(labels)-1).Draw(rt, "label")])
	}
	return strings.Join(parts, ".")
}

func c19Gen(rt *rapid.T) c19Case {
	c := c19Case{Host: c19GenHost(rt), Target: rapid.SampledFrom([]string{"metadata", "node", "node", "node-from-row"}).Draw(rt, "target")}
	c.NodeID = rapid.SampledFrom([]string{"6f1e2b3c-1111-4222-8333-444455556666", "contact-point-0", "0b7a9c6e-aaaa-4bbb-8ccc-ddddeeeeffff", "node0"}).Draw(rt, "nodeid")
	if n := rapid.IntRange(0, 2).Draw(rt, "others"); n > 0 && c.Target == "node" {
		for i := 0; i < n; i++ {
			c.Others = append(c.Others, fmt.Sprintf("%08x-0000-4000-8000-00000000000%d", 0xabc0+i, i))
		}
		c.Pick = rapid.IntRange(0, n).Draw(rt, "pick")
	}
	if c.Target == "node" && rapid.IntRange(0, 149).Draw(rt, "expiressoon") == 77 {
		c.Kind = "expires-soon"
		return c
	}
	c.Kind = rapid.SampledFrom([]string{"valid", "valid", "valid-intermediate-sent", "valid-wildcard", "intermediate-missing", "other-ca", "forged-issuer-name", "self-signed",
		"wrong-name", "wrong-name", "name-only-in-cn", "expired", "not-yet-valid", "stuffed-selfsigned-ca", "stuffed-selfsigned", "stuffed-other-ca"}).Draw(rt, "kind")
	parts := strings.Split(c.Host, ".")
	switch c.Kind {
	case "valid-wildcard":
		c.SAN = "*." + strings.Join(parts[1:], ".")
	case "wrong-name":
		switch rapid.IntRange(0, 3).Draw(rt, "wrongkind") {
		case 0:
			c.SAN = "unrelated.example.org"
		case 1:
			c.SAN = "other-" + c.Host // sibling label
		case 2:
			c.SAN = "*." + c.Host // wildcard one level too deep
		case 3:
			if len(parts) > 2 {
				c.SAN = "*." + strings.Join(parts[2:], ".") // wildcard one level too high
			} else {
				c.SAN = "*.org"
			}
		}
	case "expired", "not-yet-valid":
		c.Delta = rapid.SampledFrom([]int64{120, 3600, 86400, 30 * 86400, 365 * 86400, 3650 * 86400}).Draw(rt, "delta")
	}
	if c.Kind == "valid" && c.Target == "metadata" && rapid.IntRange(0, 2).Draw(rt, "redirect") == 0 {
		c.Redirect = true
	}
	if c.Kind == "valid" && c.Target != "metadata" && rapid.IntRange(0, 2).Draw(rt, "swap") == 0 {
		c.SwapTo = rapid.SampledFrom([]string{"self-signed", "other-ca", "forged-issuer-name", "intermediate-missing", "stuffed-selfsigned-ca"}).Draw(rt, "swapto")
	}
	return c
}

func TestC19(t *testing.T) {
	rec := evid.New("C19", "exploration",
		"an in-process PKI (bundle CA, unrelated CA, intermediate, a CA forging the bundle CA's subject name) and TLS probe servers for the metadata service and a database node; generated bundle host names (2..4 labels, resolved by an in-process stub DNS), node ids / contact points, and server chains {valid leaf, valid leaf + intermediate sent, wildcard, intermediate missing, other CA, forged issuer name, self-signed, wrong name (unrelated / sibling / wildcard one level off), name only in CN, expired and not-yet-valid by 2 minutes .. 10 years}, and servers that present a valid chain for a first connection and an invalid one (same address, same session-ticket keys) for the next connection made with the same endpoint; connections made the way the proxy makes them (astra.LoadBundleZip, NewResolver.Resolve / NewEndpoint, proxycore.ConnectClient + Handshake); "+
			"oracle: by construction and cross-checked against a plain crypto/tls client: valid chains are accepted, the server sees the node id as SNI, the bundle's client certificate and then a CQL STARTUP; every other chain makes the connection fail with zero application bytes sent; "+
			"non-trivial = an invalid chain, or a valid chain with intermediate/wildcard; distinct by case content")
	defer finish(t, rec)
	rec.Assume("host names resolve through an in-process stub DNS (net.DefaultResolver), all to 127.0.0.1", "validity deltas of at least two minutes (no clock-edge cases)")
	// certificates that expire while the endpoint object lives (a few seconds each, so a fixed handful)
	shard, shards := evid.Shard()
	runEnum(t, rec, "expiry", func(yield func(c19Case) bool) {
		fixed := []c19Case{
			{Host: "db.astra.example.com", Kind: "expires-soon", Target: "node", NodeID: "6f1e2b3c-1111-4222-8333-444455556666"},
			{Host: "a1b2c3.apps.example.com", Kind: "expires-soon", Target: "node", NodeID: "contact-point-0", Others: []string{"contact-point-1"}, Pick: 1},
		}
		for i, c := range fixed {
			if i%shards == shard%len(fixed) || shards == 1 {
				rec.Case(js(c), "kind:"+c.Kind, "target:"+c.Target)
				if !yield(c) {
					return
				}
			}
		}
	}, c19Check)
	runProp(t, rec, "tls", perShard(evid.Pick(3000, 200000)), func(rt *rapid.T) c19Case {
		c := c19Gen(rt)
		key := ""
		if !c19ValidKinds[c.Kind] || c.Kind != "valid" {
			key = js(c)
		}
		rec.Case(key, "kind:"+c.Kind, "target:"+c.Target, fmt.Sprintf("labels:%d", strings.Count(c.Host, ".")+1))
		rec.Sample(c)
		return c
	}, c19Check)
}
