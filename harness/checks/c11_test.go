package checks

import (
	"bytes"
	"encoding/hex"
	"fmt"
	"testing"
	"time"

	"github.com/datastax/cql-proxy/codecs"
	"github.com/datastax/go-cassandra-native-protocol/frame"
	"github.com/datastax/go-cassandra-native-protocol/message"
	"github.com/datastax/go-cassandra-native-protocol/primitive"
	"pgregory.net/rapid"

	"verif/harness/evid"
	"verif/harness/protogen"
)

// ---- C11: partial QUERY/EXECUTE/BATCH codecs agree with the reference codecs ----

type c11Child struct {
	Query  string `json:"query,omitempty"`
	Id     string `json:"id,omitempty"`     // hex
	Values string `json:"values,omitempty"` // hex of the reference encoding of the positional values
}

type c11Expect struct {
	Query       string     `json:"query,omitempty"`
	Id          string     `json:"id,omitempty"`
	ResultMeta  string     `json:"result_metadata_id,omitempty"`
	Consistency int        `json:"consistency"`
	BatchType   int        `json:"batch_type,omitempty"`
	Children    []c11Child `json:"children,omitempty"`
}

type c11Case struct {
	Mode    string     `json:"mode"` // valid | prefix | mutant | fuzz
	Version int        `json:"version"`
	Op      int        `json:"opcode"`
	Flags   int        `json:"flags"`
	Body    string     `json:"body"` // hex
	Expect  *c11Expect `json:"expect,omitempty"`
	MustErr bool       `json:"must_err,omitempty"`
	Note    string     `json:"note,omitempty"`
}

func opName(op primitive.OpCode) string {
	switch op {
	case primitive.OpCodeQuery:
		return "QUERY"
	case primitive.OpCodeExecute:
		return "EXECUTE"
	case primitive.OpCodeBatch:
		return "BATCH"
	case primitive.OpCodePrepare:
		return "PREPARE"
	}
	return fmt.Sprintf("op%d", op)
}

type c11Decoded struct {
	exp  c11Expect
	rest int // length of the opaque remainder
}

func c11PartialDecode(v primitive.ProtocolVersion, op primitive.OpCode, flags primitive.HeaderFlag, body []byte) (*frame.Body, *c11Decoded, error) {
	hdr := &frame.Header{Version: v, OpCode: op, Flags: flags, BodyLength: int32(len(body))}
	b, err := codecs.CustomRawCodec.DecodeBody(hdr, codecs.NewFrameBodyReader(body))
	if err != nil {
		return nil, nil, err
	}
	d := &c11Decoded{}
	switch m := b.Message.(type) {
	case *codecs.PartialQuery:
		d.exp = c11Expect{Query: m.Query, Consistency: int(m.Consistency)}
		d.rest = len(m.Parameters)
	case *codecs.PartialExecute:
		d.exp = c11Expect{Id: hex.EncodeToString(m.QueryId), ResultMeta: hex.EncodeToString(m.ResultMetadataId), Consistency: int(m.Consistency)}
		d.rest = len(m.Parameters)
	case *codecs.PartialBatch:
		d.exp = c11Expect{BatchType: int(m.Type), Consistency: int(m.Consistency)}
		for _, q := range m.Queries {
			ch := c11Child{Values: hex.EncodeToString(q.Values)}
			switch x := q.QueryOrId.(type) {
			case string:
				ch.Query = x
			case []byte:
				ch.Id = hex.EncodeToString(x)
			}
			d.exp.Children = append(d.exp.Children, ch)
		}
		d.rest = len(m.Parameters)
	default:
		return b, nil, fmt.Errorf("partial codec returned %T", b.Message)
	}
	return b, d, nil
}

func c11RefExpect(v primitive.ProtocolVersion, msg message.Message) c11Expect {
	switch m := msg.(type) {
	case *message.Query:
		return c11Expect{Query: m.Query, Consistency: int(m.Options.Consistency)}
	case *message.Execute:
		e := c11Expect{Id: hex.EncodeToString(m.QueryId), Consistency: int(m.Options.Consistency)}
		if v.SupportsResultMetadataId() {
			e.ResultMeta = hex.EncodeToString(m.ResultMetadataId)
		}
		return e
	case *message.Batch:
		e := c11Expect{BatchType: int(m.Type), Consistency: int(m.Consistency)}
		for _, c := range m.Children {
			var buf bytes.Buffer
			_ = primitive.WritePositionalValues(c.Values, &buf, v)
			ch := c11Child{Values: hex.EncodeToString(buf.Bytes())}
			if len(c.Id) > 0 || c.Query == "" && c.Id != nil {
				ch.Id = hex.EncodeToString(c.Id)
			} else {
				ch.Query = c.Query
			}
			e.Children = append(e.Children, ch)
		}
		return e
	}
	return c11Expect{}
}

func c11Check(c c11Case) *evid.Fail {
	return watchdog(20*time.Second, "partial-codec-hang", func() *evid.Fail { return c11CheckInner(c) })
}

// c11Declares16MiB walks the leading fields the way the native-protocol layout prescribes and
// reports whether a [long string] declares more than 16 MiB. The proxy enforces no frame-size
// limit; such declared lengths are a resource question that the properties leave out of scope
// (C17), and decoding them allocates the declared size.
func c11Declares16MiB(op primitive.OpCode, flags primitive.HeaderFlag, b []byte) bool {
	const lim = 16 << 20
	i := 0
	i32 := func() (int, bool) {
		if i+4 > len(b) {
			return 0, false
		}
		n := int(int32(uint32(b[i])<<24 | uint32(b[i+1])<<16 | uint32(b[i+2])<<8 | uint32(b[i+3])))
		i += 4
		return n, true
	}
	u16 := func() (int, bool) {
		if i+2 > len(b) {
			return 0, false
		}
		n := int(b[i])<<8 | int(b[i+1])
		i += 2
		return n, true
	}
	if flags.Contains(primitive.HeaderFlagCustomPayload) {
		n, ok := u16()
		for k := 0; ok && k < n; k++ {
			var l int
			if l, ok = u16(); !ok {
				return false
			}
			i += l
			if l, ok = i32(); !ok {
				return false
			}
			if l > lim {
				return true
			}
			if l > 0 {
				i += l
			}
		}
		if !ok {
			return false
		}
	}
	switch op {
	case primitive.OpCodeQuery:
		n, ok := i32()
		return ok && n > lim
	case primitive.OpCodeBatch:
		i++ // type
		cnt, ok := u16()
		for k := 0; ok && k < cnt; k++ {
			if i >= len(b) {
				return false
			}
			kind := b[i]
			i++
			switch kind {
			case 0:
				n, ok2 := i32()
				if !ok2 {
					return false
				}
				if n > lim {
					return true
				}
				if n > 0 {
					i += n
				}
			case 1:
				n, ok2 := u16()
				if !ok2 {
					return false
				}
				i += n
			default:
				return false
			}
			nv, ok2 := u16()
			if !ok2 {
				return false
			}
			for j := 0; j < nv; j++ {
				l, ok3 := i32()
				if !ok3 {
					return false
				}
				if l > lim {
					return true
				}
				if l > 0 {
					i += l
				}
			}
		}
	}
	return false
}

func c11CheckInner(c c11Case) *evid.Fail {
	body, err := hex.DecodeString(c.Body)
	if err != nil {
		return nil
	}
	v, op, flags := primitive.ProtocolVersion(c.Version), primitive.OpCode(c.Op), primitive.HeaderFlag(c.Flags)
	if (c.Mode == "mutant" || c.Mode == "fuzz") && c11Declares16MiB(op, flags, body) {
		return nil // out of scope (resource question)
	}
	where := fmt.Sprintf("%s/%s", opName(op), protogen.VersionName(v))
	orig := append([]byte(nil), body...)
	b, d, err := c11PartialDecode(v, op, flags, body)
	if !bytes.Equal(orig, body) {
		return evid.Failf("decode-mutates-input:"+where, "partial decode modified its input buffer")
	}
	switch c.Mode {
	case "valid":
		if err != nil {
			return evid.Failf("valid-rejected:"+where, "partial decoder rejects a body produced by the reference encoder: %v (body %s)", err, c.Body)
		}
		if c.Expect != nil && js(d.exp) != js(*c.Expect) {
			return evid.Failf("fields-disagree:"+where, "partial decode extracted %s, reference message has %s", js(d.exp), js(*c.Expect))
		}
	case "prefix":
		if c.MustErr && err == nil {
			return evid.Failf("truncated-accepted:"+where, "body cut inside the leading fields was accepted: %s -> %s", c.Body, js(d.exp))
		}
	}
	if err != nil {
		return nil
	}
	// whatever was accepted must re-encode to exactly the same bytes
	hdr := &frame.Header{Version: v, OpCode: op, Flags: flags}
	var buf bytes.Buffer
	if err := codecs.CustomRawCodec.EncodeBody(hdr, b, &buf); err != nil {
		return evid.Failf("reencode-error:"+where, "re-encoding the partially decoded message failed: %v", err)
	}
	exact := c.Mode == "valid" || c.Mode == "prefix" // bytes that the reference encoder produced (or a prefix of them)
	if !exact && !bytes.Equal(buf.Bytes(), orig) {
		// malformed input that the decoder tolerates the same way the reference primitives do
		// (e.g. a negative [long string] length read as ""): the re-encoding must at least be a
		// fixpoint, i.e. decode to the same fields again and re-encode to itself.
		re := append([]byte(nil), buf.Bytes()...)
		b2, d2, err2 := c11PartialDecode(v, op, flags, re)
		if err2 != nil {
			return evid.Failf("reencode-undecodable:"+where, "re-encoded body of an accepted input is itself rejected: %v (input %s)", err2, trunc(c.Body))
		}
		if js(d2.exp) != js(d.exp) || d2.rest != d.rest {
			return evid.Failf("reencode-changes-meaning:"+where, "decode(encode(decode(b))) differs: %s vs %s (input %s)", js(d2.exp), js(d.exp), trunc(c.Body))
		}
		if len(b.CustomPayload) > 1 {
			// a mutation turned the custom payload into a map with several entries: their order on the wire is Go's
			// map iteration order, so byte-level comparisons of re-encodings say nothing (the meaning was compared above)
			return nil
		}
		var buf2 bytes.Buffer
		if err := codecs.CustomRawCodec.EncodeBody(hdr, b2, &buf2); err != nil || !bytes.Equal(buf2.Bytes(), re) {
			return evid.Failf("reencode-not-fixpoint:"+where, "re-encoding is not a fixpoint (input %s)", trunc(c.Body))
		}
		orig = re
	}
	if !bytes.Equal(buf.Bytes(), orig) {
		return evid.Failf("roundtrip-differs:"+where, "re-encoded body differs from the original (%d vs %d bytes): got %s want %s", buf.Len(), len(orig), trunc(hex.EncodeToString(buf.Bytes())), trunc(c.Body))
	}
	// the frame-level path the proxy uses when it overrides a consistency (EncodeFrame)
	// is exercised by C12; here also check the declared length
	if len(b.CustomPayload) > 1 {
		return nil // several payload entries: their wire order is Go's map iteration order (see above)
	}
	if n, err := codecs.CustomRawCodec.ConvertToRawFrame(&frame.Frame{Header: &frame.Header{Version: v, OpCode: op, Flags: flags}, Body: b}); err == nil {
		if !bytes.Equal(n.Body, orig) {
			return evid.Failf("rawframe-differs:"+where, "ConvertToRawFrame body differs from the original")
		}
	}
	// the whole-frame path the proxy takes when it forwards a re-encoded request (EncodeFrame): the
	// declared body length must be the real one and the bytes must be the original ones. (Frames with
	// the tracing flag are left to C12, where the length defect of that path is a recorded finding.)
	if !flags.Contains(primitive.HeaderFlagTracing) {
		var fb bytes.Buffer
		fr := &frame.Frame{Header: &frame.Header{Version: v, OpCode: op, Flags: flags, StreamId: 1}, Body: b}
		if err := codecs.CustomRawCodec.EncodeFrame(fr, &fb); err != nil {
			return evid.Failf("encodeframe-error:"+where, "EncodeFrame of the partially decoded message failed: %v", err)
		}
		out := fb.Bytes()
		if len(out) < 9 {
			return evid.Failf("encodeframe-short:"+where, "EncodeFrame wrote %d bytes", len(out))
		}
		declared := int(uint32(out[5])<<24 | uint32(out[6])<<16 | uint32(out[7])<<8 | uint32(out[8]))
		if declared != len(out)-9 {
			return evid.Failf("frame-length-wrong:"+where, "re-encoded frame declares %d body bytes but carries %d (input %s)", declared, len(out)-9, trunc(c.Body))
		}
		if !bytes.Equal(out[9:], orig) {
			return evid.Failf("frame-body-differs:"+where, "re-encoded frame body differs from the original (input %s)", trunc(c.Body))
		}
	}
	// differential against the reference decoder whenever it accepts the same bytes (only for bytes
	// the reference encoder produced or prefixes of them: on arbitrary mutants the full reference
	// decoder allocates whatever length a misaligned field happens to declare)
	if !exact {
		return nil
	}
	if rb, rerr := protogen.Ref.DecodeBody(&frame.Header{Version: v, OpCode: op, Flags: flags, BodyLength: int32(len(orig))}, bytes.NewReader(orig)); rerr == nil {
		ref := c11RefExpect(v, rb.Message)
		got := d.exp
		if op == primitive.OpCodeBatch {
			// the reference decoder normalises child values; compare kinds/ids/strings only
			for i := range ref.Children {
				ref.Children[i].Values = ""
			}
			got.Children = append([]c11Child(nil), got.Children...)
			for i := range got.Children {
				got.Children[i].Values = ""
			}
		}
		if js(got) != js(ref) {
			return evid.Failf("differential:"+where, "both decoders accept the body but disagree: partial %s reference %s (body %s)", js(got), js(ref), trunc(c.Body))
		}
	}
	return nil
}

func trunc(s string) string {
	if len(s) > 400 {
		return s[:400] + "..."
	}
	return s
}

type c11Gen struct {
	msg     message.Message
	v       primitive.ProtocolVersion
	payload map[string][]byte
	tracing bool
	body    []byte
	flags   primitive.HeaderFlag
	nopt    int
	mixed   bool
}

var c11Texts = []string{"SELECT * FROM ks.t", "", "INSERT INTO t (a) VALUES (?)", "UPDATE t SET v = v + 1 WHERE k = 'ünï'", "x"}

func c11GenMsg(rt *rapid.T) *c11Gen {
	g := &c11Gen{v: protogen.Version(rt)}
	cl := protogen.Consistency(rt, "cl")
	maxLarge := 200000
	text := func() string {
		if rapid.IntRange(0, 9).Draw(rt, "bigtext") == 0 {
			return string(protogen.Bytes(rt, "text", protogen.SizeMix(rt, "textlen", 100000)))
		}
		return c11Texts[rapid.IntRange(0, len(c11Texts)-1).Draw(rt, "text")]
	}
	id := func() []byte {
		return protogen.Bytes(rt, "id", rapid.SampledFrom([]int{1, 16, 16, 16, 32, 255}).Draw(rt, "idlen"))
	}
	switch rapid.IntRange(0, 2).Draw(rt, "op") {
	case 0:
		g.msg = protogen.Query(rt, g.v, text(), cl, maxLarge)
	case 1:
		g.msg = protogen.Execute(rt, g.v, id(), cl, maxLarge)
	case 2:
		n := rapid.IntRange(0, 5).Draw(rt, "nchildren")
		var ch []protogen.BatchChildSpec
		kinds := 0
		for i := 0; i < n; i++ {
			if rapid.Bool().Draw(rt, "childprepared") {
				ch = append(ch, protogen.BatchChildSpec{Id: id()})
				kinds |= 1
			} else {
				q := text()
				if q == "" {
					q = "DELETE FROM t WHERE k = 1"
				}
				ch = append(ch, protogen.BatchChildSpec{Query: q})
				kinds |= 2
			}
		}
		g.mixed = kinds == 3
		g.msg = protogen.Batch(rt, g.v, ch, cl, maxLarge)
	}
	if g.v >= primitive.ProtocolVersion4 && rapid.IntRange(0, 3).Draw(rt, "payload") == 0 {
		g.payload = protogen.CustomPayload(rt, 1) // one entry: the reference encoder writes maps in Go map order
	}
	g.tracing = rapid.IntRange(0, 3).Draw(rt, "tracing") == 0
	var err error
	g.body, g.flags, err = protogen.EncodeBody(g.v, g.msg, g.payload, g.tracing)
	if err != nil {
		rt.Fatalf("generator: reference encoder failed: %v", err)
	}
	switch m := g.msg.(type) {
	case *message.Query:
		g.nopt = c11CountOpts(m.Options)
	case *message.Execute:
		g.nopt = c11CountOpts(m.Options)
	case *message.Batch:
		for _, b := range []bool{m.SerialConsistency != nil, m.DefaultTimestamp != nil, m.Keyspace != "", m.NowInSeconds != nil} {
			if b {
				g.nopt++
			}
		}
	}
	return g
}

func c11CountOpts(o *message.QueryOptions) int {
	n := 0
	for _, b := range []bool{len(o.PositionalValues) > 0, len(o.NamedValues) > 0, o.SkipMetadata, o.PageSize > 0, o.PagingState != nil,
		o.SerialConsistency != nil, o.DefaultTimestamp != nil, o.Keyspace != "", o.NowInSeconds != nil, o.ContinuousPagingOptions != nil, o.PageSizeInBytes} {
		if b {
			n++
		}
	}
	return n
}

func (g *c11Gen) labels() []string {
	op := opName(g.msg.GetOpCode())
	ls := []string{op + "/" + protogen.VersionName(g.v)}
	if g.payload != nil {
		ls = append(ls, "flag:custom-payload")
	}
	if g.tracing {
		ls = append(ls, "flag:tracing")
	}
	switch {
	case len(g.body) > 65536:
		ls = append(ls, "size:>64KiB")
	case len(g.body) > 4096:
		ls = append(ls, "size:4-64KiB")
	default:
		ls = append(ls, "size:<4KiB")
	}
	return ls
}

func (g *c11Gen) nontrivialKey() string {
	if g.nopt >= 2 || g.mixed || g.v >= primitive.ProtocolVersion5 {
		return fmt.Sprintf("%d|%d|%d|%x", g.v, g.msg.GetOpCode(), g.flags, hash64s(g.body))
	}
	return ""
}

func hash64s(b []byte) uint64 {
	var h uint64 = 14695981039346656037
	for _, c := range b {
		h ^= uint64(c)
		h *= 1099511628211
	}
	return h
}

// c11GenSmall: a message from the full option space whose values and texts are small (the boundary family adds the bulk).
func c11GenSmall(rt *rapid.T) *c11Gen {
	g := &c11Gen{v: protogen.Version(rt)}
	cl := protogen.Consistency(rt, "cl")
	id := func() []byte {
		return protogen.Bytes(rt, "id", rapid.SampledFrom([]int{1, 16, 16, 32}).Draw(rt, "idlen"))
	}
	switch rapid.IntRange(0, 3).Draw(rt, "op") {
	case 0:
		g.msg = protogen.Query(rt, g.v, c11Texts[rapid.IntRange(0, len(c11Texts)-1).Draw(rt, "text")], cl, 0)
	case 1:
		g.msg = protogen.Execute(rt, g.v, id(), cl, 0)
	default:
		n := rapid.IntRange(1, 12).Draw(rt, "nchildren")
		var ch []protogen.BatchChildSpec
		for i := 0; i < n; i++ {
			if rapid.Bool().Draw(rt, "childprepared") {
				ch = append(ch, protogen.BatchChildSpec{Id: id()})
			} else {
				ch = append(ch, protogen.BatchChildSpec{Query: "DELETE FROM t WHERE k = ?"})
			}
		}
		g.msg = protogen.Batch(rt, g.v, ch, cl, 0)
	}
	if g.v >= primitive.ProtocolVersion4 && rapid.IntRange(0, 3).Draw(rt, "payload") == 0 {
		g.payload = protogen.CustomPayload(rt, 1)
	}
	g.tracing = rapid.IntRange(0, 3).Draw(rt, "tracing") == 0
	return g
}

// c11PadTo adds one value (to the query options, or to a drawn batch child) sized so that the encoded body has exactly
// target bytes; reports whether that worked out (it does unless the message is already longer).
func c11PadTo(rt *rapid.T, g *c11Gen, target int) bool {
	pad := &primitive.Value{Type: primitive.ValueTypeRegular, Contents: []byte{}}
	addTo := func(o *message.QueryOptions) {
		if len(o.NamedValues) > 0 {
			o.NamedValues["zzpad"] = pad
		} else {
			o.PositionalValues = append(o.PositionalValues, pad)
		}
	}
	switch m := g.msg.(type) {
	case *message.Query:
		addTo(m.Options)
	case *message.Execute:
		addTo(m.Options)
	case *message.Batch:
		ch := m.Children[rapid.IntRange(0, len(m.Children)-1).Draw(rt, "padchild")]
		ch.Values = append(ch.Values, pad)
	}
	enc := func() int {
		var err error
		g.body, g.flags, err = protogen.EncodeBody(g.v, g.msg, g.payload, g.tracing)
		if err != nil {
			rt.Fatalf("generator: reference encoder failed: %v", err)
		}
		return len(g.body)
	}
	n := enc()
	if n > target {
		return false
	}
	fill := make([]byte, target-n)
	for i := range fill {
		fill[i] = byte(i*7 + i>>8)
	}
	pad.Contents = fill
	ok := enc() == target
	switch m := g.msg.(type) {
	case *message.Query:
		g.nopt = c11CountOpts(m.Options)
	case *message.Execute:
		g.nopt = c11CountOpts(m.Options)
	}
	return ok
}

func TestC11(t *testing.T) {
	rec := evid.New("C11", "exploration",
		"QUERY/EXECUTE/BATCH messages over the reference library's full option space for v3,v4,v5,DSEv1,DSEv2 (flags custom-payload/tracing), encoded by the reference codec, decoded with codecs.CustomRawCodec the way the proxy does; "+
			"oracles: extracted fields equal the generated message, re-encoding reproduces the bytes, every prefix cut inside the leading fields is rejected and any accepted prefix/mutant round-trips and agrees with the reference decoder; "+
			"non-trivial = message with >=2 optional fields, a batch mixing string and prepared children, or a v5/DSE version; distinct by (version, opcode, flags, body hash)")
	defer finish(t, rec)
	rec.Assume("the reference library go-cassandra-native-protocol is the oracle for the wire format",
		"named values are encoded by the reference library in map order, which is not deterministic across runs; the replay case stores the exact bytes")

	mk := func(g *c11Gen, mode string) c11Case {
		exp := c11RefExpect(g.v, g.msg)
		return c11Case{Mode: mode, Version: int(g.v), Op: int(g.msg.GetOpCode()), Flags: int(g.flags), Body: hex.EncodeToString(g.body), Expect: &exp}
	}

	runProp(t, rec, "valid", perShard(evid.Pick(100000, 2400000)), func(rt *rapid.T) c11Case {
		g := c11GenMsg(rt)
		c := mk(g, "valid")
		rec.Case(g.nontrivialKey(), g.labels()...)
		if len(g.body) < 300 {
			rec.Sample(c)
		}
		return c
	}, c11Check)

	// prefixes: every cut for small bodies, sampled cuts for large ones
	runProp(t, rec, "prefix", perShard(evid.Pick(30000, 800000)), func(rt *rapid.T) c11Case {
		g := c11GenMsg(rt)
		c := mk(g, "prefix")
		// where do the leading fields end? (from the reference message, not from the decoder under test)
		lead := len(g.body)
		full, _ := protogen.EncodeMessage(g.v, g.msg)
		payloadLen := len(g.body) - len(full)
		switch m := g.msg.(type) {
		case *message.Query:
			lead = payloadLen + 4 + len(m.Query) + 2
		case *message.Execute:
			lead = payloadLen + 2 + len(m.QueryId) + 2
			if g.v.SupportsResultMetadataId() {
				lead += 2 + len(m.ResultMetadataId)
			}
		case *message.Batch:
			lead = payloadLen + 3
			for _, ch := range m.Children {
				var buf bytes.Buffer
				_ = primitive.WritePositionalValues(ch.Values, &buf, g.v)
				if ch.Query != "" || ch.Id == nil {
					lead += 1 + 4 + len(ch.Query) + buf.Len()
				} else {
					lead += 1 + 2 + len(ch.Id) + buf.Len()
				}
			}
			lead += 2
		}
		var cut int
		if rapid.Bool().Draw(rt, "inlead") || lead >= len(g.body) {
			cut = rapid.IntRange(0, lead-1).Draw(rt, "cut")
		} else {
			cut = rapid.IntRange(lead, len(g.body)-1).Draw(rt, "cut")
		}
		c.Body = hex.EncodeToString(g.body[:cut])
		c.Expect = nil
		c.MustErr = cut < lead
		c.Note = fmt.Sprintf("cut %d of %d, leading fields end at %d", cut, len(g.body), lead)
		pos := "cut-in-remainder"
		if c.MustErr {
			pos = "cut-in-leading-fields"
		}
		rec.Case("p"+g.nontrivialKey()+fmt.Sprint(cut), append(g.labels(), pos)...)
		return c
	}, c11Check)

	// field-aware mutations and random byte flips
	runProp(t, rec, "mutant", perShard(evid.Pick(60000, 1600000)), func(rt *rapid.T) c11Case {
		g := c11GenMsg(rt)
		c := mk(g, "mutant")
		b := append([]byte(nil), g.body...)
		n := rapid.IntRange(1, 3).Draw(rt, "nmut")
		for i := 0; i < n && len(b) > 0; i++ {
			at := rapid.IntRange(0, len(b)-1).Draw(rt, "at")
			if rapid.Bool().Draw(rt, "early") && len(b) > 40 {
				at = rapid.IntRange(0, 39).Draw(rt, "atearly")
			}
			// bytes keep their position (no insertion/deletion) and a zero byte only ever becomes >= 0x80,
			// so a length field of a generated body never declares more than 16 MiB by mutation
			set := func(x byte) {
				if b[at] == 0 && x < 0x80 {
					x |= 0x80
				}
				b[at] = x
			}
			switch rapid.IntRange(0, 5).Draw(rt, "mut") {
			case 0:
				set(rapid.Byte().Draw(rt, "byte"))
			case 1:
				b[at] = 0xff
			case 2:
				b[at] = 0
			case 3:
				b[at] ^= 0x80
			case 4: // overwrite 4 bytes with a hostile length
				hl := rapid.SampledFrom([][]byte{{0xff, 0xff, 0xff, 0xff}, {0x00, 0xff, 0xff, 0xff}, {0, 0, 0, 0}, {0xff, 0xff, 0xff, 0xfe}, {0x80, 0, 0, 0}, {0, 0, 0xff, 0xff}}).Draw(rt, "hostilelen")
				copy(b[at:], hl)
			case 5:
				if b[at] != 0 {
					b[at] ^= byte(1 << uint(rapid.IntRange(0, 6).Draw(rt, "bit")))
				} else {
					b[at] = 0x80
				}
			}
		}
		c.Body = hex.EncodeToString(b)
		c.Expect = nil
		rec.Case("m"+c.Body[:min(len(c.Body), 64)]+fmt.Sprint(len(b)), append(g.labels(), "mutant")...)
		return c
	}, c11Check)

	// boundary sizes: valid messages padded (one extra value) so that the body length lands within a few dozen bytes of 2^15
	// or of a multiple of 2^16 up to 1 MiB - lengths at which 16-bit arithmetic on lengths or counts goes wrong
	runProp(t, rec, "boundary", perShard(evid.Pick(3200, 80000)), func(rt *rapid.T) c11Case {
		g := c11GenSmall(rt)
		target := 32768
		if m := rapid.IntRange(0, 16).Draw(rt, "m"); m > 0 {
			target = m * 65536
		}
		nch := 0
		if b, ok := g.msg.(*message.Batch); ok {
			nch = len(b.Children)
		}
		target += rapid.IntRange(-40, 5*nch+40).Draw(rt, "delta")
		hit := c11PadTo(rt, g, target)
		c := mk(g, "valid")
		c.Note = fmt.Sprintf("boundary target %d", target)
		key := ""
		if hit {
			key = g.nontrivialKey()
		}
		rec.Case(key, append(g.labels(), map[bool]string{true: "boundary:hit", false: "boundary:missed"}[hit], fmt.Sprintf("boundary:%dKiB", (target+512)/1024))...)
		return c
	}, c11Check)

	// arbitrary bytes for every (version, opcode)
	runProp(t, rec, "bytes", perShard(evid.Pick(60000, 1600000)), func(rt *rapid.T) c11Case {
		v := protogen.Version(rt)
		op := []primitive.OpCode{primitive.OpCodeQuery, primitive.OpCodeExecute, primitive.OpCodeBatch}[rapid.IntRange(0, 2).Draw(rt, "op")]
		b := rapid.SliceOfN(rapid.Byte(), 0, 80).Draw(rt, "bytes")
		if op == primitive.OpCodeQuery && len(b) > 0 && b[0] < 0x80 {
			b[0] = 0 // declared string lengths above 16 MiB are a resource question (out of scope, see C17)
		}
		c := c11Case{Mode: "fuzz", Version: int(v), Op: int(op), Body: hex.EncodeToString(b)}
		rec.Case("", "arbitrary-bytes")
		return c
	}, c11Check)
}

func min(a, b int) int {
	if a < b {
		return a
	}
	return b
}

// FuzzC11 is the coverage-guided target (thorough tier).
func FuzzC11(f *testing.F) {
	f.Add(byte(0), byte(0), []byte{0, 0, 0, 1, 'x', 0, 1, 0})
	f.Add(byte(2), byte(1), []byte{0, 1, 7, 0, 1, 9, 0, 4, 0})
	f.Add(byte(4), byte(2), []byte{0, 0, 1, 0, 0, 0, 0, 1, 'q', 0, 0, 0, 1, 0})
	f.Fuzz(func(t *testing.T, vs, ops byte, body []byte) {
		v := protogen.Versions[int(vs)%len(protogen.Versions)]
		op := []primitive.OpCode{primitive.OpCodeQuery, primitive.OpCodeExecute, primitive.OpCodeBatch}[int(ops)%3]
		c := c11Case{Mode: "fuzz", Version: int(v), Op: int(op), Body: hex.EncodeToString(body)}
		if f := safely(c11CheckInner, c); f != nil {
			fuzzFail("C11", "bytes", c, f)
			t.Fatalf("%v", f)
		}
	})
}
