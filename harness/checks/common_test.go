package checks

import (
	"encoding/json"
	"flag"
	"fmt"
	"hash/fnv"
	"os"
	"path/filepath"
	"runtime/debug"
	"strconv"
	"testing"
	"time"

	"pgregory.net/rapid"

	"verif/harness/evid"
)

// seedFor derives the rapid seed of one sub-check from VERIF_SEED, the shard and the
// sub-check name. rapid treats 0 as "random", so 0 is never returned.
func seedFor(kind string) uint64 {
	h := fnv.New64a()
	idx, _ := evid.Shard()
	fmt.Fprintf(h, "%d|%d|%s", evid.Seed(), idx, kind)
	s := h.Sum64() >> 1
	if s == 0 {
		s = 1
	}
	return s
}

// perShard splits a total case count over the shards of this run.
func perShard(total int) int {
	_, n := evid.Shard()
	c := (total + n - 1) / n
	if c < 1 {
		c = 1
	}
	return c
}

// shrinkTimes bounds shrinking for sub-checks whose failing cases are slow (bounded waits).
var shrinkTimes = map[string]string{"healing": "20s", "storm": "25s", "cycle": "20s", "exhaust": "15s"}

func setRapid(kind string, checks int) {
	_ = flag.Set("rapid.checks", strconv.Itoa(checks))
	_ = flag.Set("rapid.seed", strconv.FormatUint(seedFor(kind), 10))
	_ = flag.Set("rapid.nofailfile", "true")
	st := "30s"
	if d, ok := shrinkTimes[kind]; ok {
		st = d
	}
	if os.Getenv("VERIF_SHRINKTIME") != "" {
		st = os.Getenv("VERIF_SHRINKTIME")
	}
	_ = flag.Set("rapid.shrinktime", st)
}

// safely runs the oracle and turns a panic of the code under test into a failure.
func safely[C any](check func(C) *evid.Fail, c C) (f *evid.Fail) {
	defer func() {
		if p := recover(); p != nil {
			f = evid.Failf("panic", "panic: %v\n%s", p, debug.Stack())
		}
	}()
	return check(c)
}

// runProp is the shape shared by all generated checks: a generator producing a
// serialisable case, and an oracle over the case. It (1) honours a replay request,
// (2) replays the curated regression cases, (3) runs the generated search.
func runProp[C any](t *testing.T, rec *evid.Recorder, kind string, checks int, gen func(*rapid.T) C, check func(C) *evid.Fail) {
	t.Helper()
	if only := os.Getenv("VERIF_ONLY"); only != "" && only != kind { // debugging aid: run one sub-check
		return
	}
	one := func(path string) {
		var c C
		if _, err := evid.LoadReplay(path, &c); err != nil {
			fmt.Printf("replay %s: cannot load: %v\n", path, err)
			return
		}
		if f := safely(check, c); f != nil {
			if rec.Known(f) {
				return
			}
			rec.Violation(kind, c, f)
			t.Errorf("replay %s: %v", path, f)
		} else {
			fmt.Printf("replay %s: ok\n", path)
		}
	}
	if rp := evid.ReplayFile(); rp != "" {
		if evid.ReplayKind(rp) == kind {
			one(rp)
		}
		return
	}
	for _, p := range evid.SavedReplays(rec.ID) {
		if evid.ReplayKind(p) == kind {
			one(p)
			rec.Label("replayed:" + kind)
		}
	}
	if checks <= 0 {
		return
	}
	setRapid(kind, checks)
	t.Run(kind, func(t *testing.T) {
		defer rec.Flush(kind)
		rapid.Check(t, func(rt *rapid.T) {
			c := gen(rt)
			if rec.JournalAll() {
				rec.Journal(kind, c)
			}
			f := safely(check, c)
			if f != nil {
				if rec.Known(f) {
					return
				}
				if f.Sig == "harness-stall" {
					// the machine (scheduler, or the kernel's TCP stack under connection churn) did not run the harness:
					// nothing can be said about the proxy
					inconclusive(rec, "%s", f.Msg)
				}
				rec.Remember(c, f)
				rt.Fatalf("%v", f)
			}
		})
	})
}

// runEnum runs the oracle over an enumerated (non-random) list of cases.
func runEnum[C any](t *testing.T, rec *evid.Recorder, kind string, cases func(yield func(C) bool), check func(C) *evid.Fail) {
	t.Helper()
	if only := os.Getenv("VERIF_ONLY"); only != "" && only != kind {
		return
	}
	if rp := evid.ReplayFile(); rp != "" {
		if evid.ReplayKind(rp) == kind {
			var c C
			if _, err := evid.LoadReplay(rp, &c); err == nil {
				if f := safely(check, c); f != nil && !rec.Known(f) {
					rec.Violation(kind, c, f)
					t.Errorf("replay: %v", f)
				}
			}
		}
		return
	}
	seen := map[string]bool{}
	cases(func(c C) bool {
		rec.Journal(kind, c)
		if f := safely(check, c); f != nil {
			if rec.Known(f) {
				return true
			}
			if !seen[f.Sig] { // one report per root-cause signature
				seen[f.Sig] = true
				rec.Violation(kind, c, f)
				t.Errorf("%s: %v", kind, f)
			}
			return len(seen) < 5
		}
		return true
	})
}

// watchdog runs f and reports a hang (no return within d) as a failure with signature sig.
func watchdog(d time.Duration, sig string, f func() *evid.Fail) *evid.Fail {
	ch := make(chan *evid.Fail, 1)
	go func() {
		defer func() {
			if p := recover(); p != nil {
				ch <- evid.Failf("panic", "panic: %v\n%s", p, debug.Stack())
			}
		}()
		ch <- f()
	}()
	select {
	case r := <-ch:
		return r
	case <-time.After(d):
		return evid.Failf(sig, "no return within %v", d)
	}
}

func js(v interface{}) string {
	b, _ := json.Marshal(v)
	return string(b)
}

// finish writes the shard file; every TestCNN defers it.
func finish(t *testing.T, rec *evid.Recorder) {
	rec.Write()
	if rec.Violations() > 0 && !t.Failed() {
		t.Fail()
	}
}

// fuzzFail records a failure found by a native fuzz target as an ordinary replay file (same
// JSON shape as Recorder.Violation) so that ./run <ID> replay <file> re-executes it through the
// property's check function. The fuzzing engine keeps minimising after the first failure, so the
// file is overwritten by every smaller failing input; the last one written is the minimal one.
func fuzzFail(id, kind string, c interface{}, f *evid.Fail) {
	dir := os.Getenv("VERIF_OUTDIR")
	if dir == "" {
		return
	}
	b, err := json.MarshalIndent(map[string]interface{}{"property": id, "kind": kind, "sig": f.Sig, "msg": f.Msg, "case": c}, "", " ")
	if err != nil {
		return
	}
	tmp := filepath.Join(dir, fmt.Sprintf("fail-fuzz.json.%d", os.Getpid()))
	if os.WriteFile(tmp, b, 0o644) == nil {
		_ = os.Rename(tmp, filepath.Join(dir, "fail-fuzz.json"))
	}
}
