package checks

import (
	"fmt"
	"runtime"
	"strings"
	"sync"
	"testing"
	"time"

	"github.com/datastax/go-cassandra-native-protocol/message"
	"github.com/datastax/go-cassandra-native-protocol/primitive"
	"pgregory.net/rapid"

	"verif/harness/evid"
	"verif/harness/fakecass"
	"verif/harness/protogen"
)

// ---- C07: requests run in the client's current keyspace, protocol version and compression ----

type c07Action struct {
	Op      string `json:"op"`             // use | data | parallel_use | reconnect | backend_loss
	Host    int    `json:"host,omitempty"` // backend_loss: the host whose connections are dropped
	Client  int    `json:"client"`
	Use     string `json:"use,omitempty"`     // keyspace as spelled by the client
	Kind    string `json:"kind,omitempty"`    // data: query | prepare | execute | batch
	Clients []int  `json:"clients,omitempty"` // parallel_use
}

type c07Client struct {
	Version int    `json:"version"`
	Comp    string `json:"comp,omitempty"`
}

type c07Case struct {
	Hosts     int         `json:"hosts"`
	Keyspaces []string    `json:"keyspaces"` // existing keyspaces (exact ids)
	Clients   []c07Client `json:"clients"`
	Actions   []c07Action `json:"actions"`
	Busy      bool        `json:"busy,omitempty"` // spin on every processor while a USE of a missing keyspace is in flight
}

func c07Check(c c07Case) *evid.Fail {
	e, err := startEnv(envOpts{Hosts: c.Hosts, NumConns: 1, Version: primitive.ProtocolVersion4, MaxVersion: primitive.ProtocolVersionDse2, Keyspaces: c.Keyspaces})
	if err != nil {
		return evid.Failf("harness-env", "%v", err)
	}
	defer e.Close()
	exists := map[string]bool{"system": true}
	for _, k := range c.Keyspaces {
		exists[k] = true
	}
	rs := make([]*runner, len(c.Clients))
	model := make([]string, len(c.Clients)) // current keyspace id per client
	connect := func(i int) *evid.Fail {
		r, err := newRunner(e, primitive.ProtocolVersion(c.Clients[i].Version), c.Clients[i].Comp)
		if err != nil {
			return evid.Failf("harness-client", "%v", err)
		}
		rs[i], model[i] = r, ""
		return nil
	}
	for i := range c.Clients {
		if f := connect(i); f != nil {
			return f
		}
	}
	// use sends USE and checks the reply against the model; returns the new model value
	use := func(ci int, spelling string) (string, *evid.Fail) {
		r := rs[ci]
		s := r.nextStream()
		from := r.c.NumFrames()
		if c.Busy && !exists[fakecass.CQLIdent(spelling)] {
			// schedule pressure while the proxy finds out that the keyspace does not exist: every processor gets
			// spinning goroutines, so the proxy's goroutines run in whatever order the scheduler picks (this is how
			// a loaded machine looks to the proxy; it only widens the set of interleavings explored)
			stop := make(chan struct{})
			defer close(stop)
			for i := 0; i < 3*runtime.GOMAXPROCS(0); i++ {
				go func() {
					for {
						select {
						case <-stop:
							return
						default:
						}
					}
				}()
			}
		}
		stallReset()
		sentAt := time.Now()
		if err := r.c.SendMsg(r.v, s, &message.Query{Query: "USE " + spelling, Options: &message.QueryOptions{Consistency: primitive.ConsistencyLevelOne}}, r.compress); err != nil {
			return "", evid.Failf("harness-send", "%v", err)
		}
		rp := r.c.WaitStream(s, from, 1, posWait)
		if rp == nil {
			if stalled(posWait) {
				return "", evid.Failf("harness-stall", "stalled")
			}
			return "", evid.Failf("no-reply:use", "client %d: no reply to USE %s (peer closed=%v)", ci, spelling, r.c.PeerClosed())
		}
		b, err := r.c.Decode(rp)
		if err != nil {
			return "", evid.Failf("undecodable", "%v", err)
		}
		id := fakecass.CQLIdent(spelling)
		if exists[id] {
			sk, ok := b.Message.(*message.SetKeyspaceResult)
			if !ok {
				return "", evid.Failf("use-rejected:"+useClass(spelling), "client %d: USE %s of the existing keyspace %q answered with %v", ci, spelling, id, b.Message)
			}
			if sk.Keyspace != id {
				return "", evid.Failf("use-reply-name:"+useClass(spelling), "client %d: USE %s answered SET_KEYSPACE %q, the backend would say %q", ci, spelling, sk.Keyspace, id)
			}
			return id, nil
		}
		em, ok := b.Message.(message.Error)
		if !ok {
			return "", evid.Failf("failed-use-accepted:"+useClass(spelling), "client %d: USE %s of a keyspace that does not exist answered with %v", ci, spelling, b.Message)
		}
		if !strings.Contains(em.GetErrorMessage(), "does not exist") && time.Since(sentAt) > 4*time.Second {
			// the proxy gave up connecting (5 s connect timeout) before any backend answered: on this machine, now,
			// that is the machine's doing, and there is no backend error to relay
			return "", evid.Failf("harness-stall", "client %d: USE %s took %v and failed with %q", ci, spelling, time.Since(sentAt), em.GetErrorMessage())
		}
		if !strings.Contains(em.GetErrorMessage(), "does not exist") {
			return "", evid.Failf("failed-use-message", "client %d: USE %s failed with %q instead of the backend's error", ci, spelling, em.GetErrorMessage())
		}
		return model[ci], nil
	}
	lossSince := false // a backend_loss happened: a request may meet a pool that is still reconnecting
	for ai, a := range c.Actions {
		switch a.Op {
		case "reconnect":
			rs[a.Client].c.Close()
			if f := connect(a.Client); f != nil {
				return f
			}
		case "backend_loss":
			// every backend connection of one host is lost; the proxy replaces them, and the replacements must be in
			// the keyspace (version, compression) of the session they belong to
			h := a.Host % c.Hosts
			e.Cluster.Host(h).DropConns(nil)
			stallReset()
			// wait until the host's connection count has settled (connections left behind by sessions that never came
			// up are not replaced, so the count before the loss is no yardstick); a request that still meets a pool
			// without a usable connection is skipped below
			deadline := time.Now().Add(posWait)
			last, stable := -1, 0
			for stable < 5 && time.Now().Before(deadline) {
				n := 0
				for _, cn := range e.Cluster.Host(h).Conns() {
					if cn.IsStarted() {
						n++
					}
				}
				if n == last && n > 0 {
					stable++
				} else {
					stable = 0
				}
				last = n
				time.Sleep(6 * time.Millisecond)
			}
			lossSince = true
		case "host_joins":
			// a node joins the ring after the sessions exist: the pools the sessions open to it must be in each session's
			// keyspace and speak its version and compression like the pools opened at start-up
			if e.Cluster.NumHosts() >= 5 {
				continue
			}
			h, err := e.Cluster.AddHost(true)
			if err != nil {
				return evid.Failf("harness-addhost", "%v", err)
			}
			for _, cn := range e.Cluster.RegisteredConns() { // the proxy learns about it when the control connection re-reads the peers table
				cn.Close()
			}
			stallReset()
			// wait for the first started connection on the new host and a control connection, then give the other sessions'
			// pools a moment (the connection count itself is no yardstick: a session whose USE failed keeps dialling the
			// new host); a request that still meets a pool without a usable connection is skipped below
			for deadline := time.Now().Add(posWait); time.Now().Before(deadline); time.Sleep(2 * time.Millisecond) {
				n := 0
				for _, cn := range h.Conns() {
					if cn.IsStarted() {
						n++
					}
				}
				if n > 0 && len(e.Cluster.RegisteredConns()) > 0 {
					break
				}
			}
			time.Sleep(40 * time.Millisecond)
			lossSince = true
		case "use":
			nk, f := use(a.Client, a.Use)
			if f != nil {
				return f
			}
			model[a.Client] = nk
		case "parallel_use":
			var wg sync.WaitGroup
			fails := make([]*evid.Fail, len(a.Clients))
			nks := make([]string, len(a.Clients))
			start := make(chan struct{})
			for k, ci := range a.Clients {
				wg.Add(1)
				go func(k, ci int) {
					defer wg.Done()
					<-start
					nks[k], fails[k] = use(ci, a.Use)
				}(k, ci)
			}
			close(start)
			wg.Wait()
			for k, ci := range a.Clients {
				if fails[k] != nil {
					if fails[k].Sig != "harness-stall" {
						fails[k].Sig = "parallel:" + fails[k].Sig
					}
					return fails[k]
				}
				model[ci] = nks[k]
			}
		case "data":
			r := rs[a.Client]
			cc := c.Clients[a.Client]
			tok := nextToken()
			q := reqSpec{Kind: a.Kind, Token: tok, Stmt: stmtSpec{Text: "SELECT * FROM t WHERE k = '" + tok + "'", Idem: true}}
			where := fmt.Sprintf("action %d: client %d (%s, %q, model keyspace %q) %s", ai, a.Client, protogen.VersionName(primitive.ProtocolVersion(cc.Version)), cc.Comp, model[a.Client], a.Kind)
			checkAttempt := func(t string) *evid.Fail {
				as := e.Cluster.Attempts(t)
				if len(as) == 0 {
					return evid.Failf("not-forwarded:"+a.Kind, "%s: never reached a backend", where)
				}
				last := as[len(as)-1]
				if last.Keyspace != model[a.Client] {
					return evid.Failf("wrong-keyspace:"+a.Kind, "%s: executed on a backend connection whose keyspace is %q", where, last.Keyspace)
				}
				if int(last.Version&0x7f) != cc.Version {
					return evid.Failf("wrong-version:"+a.Kind, "%s: executed on a backend connection speaking version %d", where, last.Version&0x7f)
				}
				if last.Comp != cc.Comp {
					return evid.Failf("wrong-compression:"+a.Kind, "%s: executed on a backend connection with compression %q", where, last.Comp)
				}
				return nil
			}
			switch a.Kind {
			case "prepare":
				// a fresh text each time so that the PREPARE is really sent
				s := r.nextStream()
				from := r.c.NumFrames()
				_ = r.c.SendMsg(r.v, s, &message.Prepare{Query: q.Stmt.Text}, r.compress)
				rp := r.c.WaitStream(s, from, 1, posWait)
				if rp == nil {
					return evid.Failf("no-reply:prepare", "%s: no reply", where)
				}
				b, err := r.c.Decode(rp)
				if err != nil {
					return evid.Failf("undecodable", "%s: %v", where, err)
				}
				if em, isErr := b.Message.(message.Error); isErr && lossSince && strings.Contains(em.GetErrorMessage(), "no more hosts") {
					continue
				}
				if _, ok := b.Message.(*message.PreparedResult); !ok {
					return evid.Failf("data-failed:prepare", "%s: answered with %v", where, b.Message)
				}
				if f := checkAttempt(tok); f != nil {
					return f
				}
			default:
				if a.Kind == "batch" {
					q.Children = []childSpec{{Stmt: stmtSpec{Text: "INSERT INTO t (k) VALUES ('" + tok + "')", Idem: true}}, {Stmt: stmtSpec{Text: "UPDATE t SET v = 1 WHERE k = '" + tok + "'", Idem: true}, Prepared: true}}
				}
				if a.Kind == "execute" || a.Kind == "batch" {
					e.Cluster.UnpreparedAuto = true // other hosts learn the statement by re-preparation
				}
				stallReset()
				s, err := r.send(&q)
				if err != nil {
					return evid.Failf("data-failed:"+a.Kind, "%s: cannot prepare/send: %v", where, err)
				}
				rp := r.c.WaitStream(s, 0, 1, posWait)
				if rp == nil {
					if stalled(posWait) {
						return evid.Failf("harness-stall", "stalled")
					}
					return evid.Failf("no-reply:"+a.Kind, "%s: no reply", where)
				}
				ri, err := r.reply(rp)
				if err != nil {
					return evid.Failf("undecodable", "%s: %v", where, err)
				}
				if ri.Echo == nil && lossSince && ri.IsError && strings.Contains(ri.Text, "no more hosts") {
					continue // the session's replacement connections are not usable yet (the backend sees them before the pool does)
				}
				if ri.Echo == nil || ri.Echo.Tok != tok {
					return evid.Failf("data-failed:"+a.Kind, "%s: answered with %v", where, ri)
				}
				if ri.Echo.Ks != model[a.Client] {
					return evid.Failf("wrong-keyspace:"+a.Kind, "%s: executed on a backend connection whose keyspace is %q", where, ri.Echo.Ks)
				}
				if f := checkAttempt(tok); f != nil {
					return f
				}
			}
		}
	}
	return nil
}

func useClass(spelling string) string {
	switch {
	case strings.HasPrefix(spelling, "refuse_"):
		return "refused-by-backend"
	case strings.HasPrefix(spelling, `"`) && spelling != strings.ToLower(spelling):
		return "quoted-mixed-case"
	case strings.HasPrefix(spelling, `"`):
		return "quoted"
	case spelling != strings.ToLower(spelling):
		return "unquoted-upper"
	}
	return "plain"
}

func c07Gen(rt *rapid.T) c07Case {
	c := c07Case{Hosts: rapid.IntRange(1, 2).Draw(rt, "hosts"), Busy: rapid.IntRange(0, 3).Draw(rt, "busy") == 0}
	pool := []string{"ks1", "ks2", "sales", "Sales", "MixedKs", "k", "with_underscore"}
	for _, k := range pool {
		if rapid.IntRange(0, 2).Draw(rt, "exists") > 0 {
			c.Keyspaces = append(c.Keyspaces, k)
		}
	}
	nc := rapid.IntRange(2, 5).Draw(rt, "nclients")
	for i := 0; i < nc; i++ {
		v := rapid.SampledFrom([]int{3, 4, 4, 4, 5, 65, 66}).Draw(rt, "version")
		comps := []string{"", "", "lz4", "snappy"}
		if v == 5 {
			comps = []string{"", "lz4"}
		}
		c.Clients = append(c.Clients, c07Client{Version: v, Comp: comps[rapid.IntRange(0, len(comps)-1).Draw(rt, "comp")]})
	}
	spellings := func() string {
		k := pool[rapid.IntRange(0, len(pool)-1).Draw(rt, "usek")]
		switch rapid.IntRange(0, 6).Draw(rt, "spelling") {
		case 6:
			// the backend refuses the USE with an error other than "unknown keyspace"
			return "refuse_" + rapid.SampledFrom([]string{"overloaded", "bootstrapping", "unauthorized"}).Draw(rt, "refusekind") + "_" + strings.ToLower(k)
		case 0:
			return strings.ToUpper(k)
		case 1:
			return `"` + k + `"`
		case 2:
			return `"` + strings.ToUpper(k) + `"`
		case 3:
			return "no_such_" + strings.ToLower(k)
		case 4:
			if k == strings.ToLower(k) {
				return strings.ToUpper(k[:1]) + k[1:]
			}
			return `"` + k + `"`
		}
		return k
	}
	n := rapid.IntRange(3, 25).Draw(rt, "nactions")
	for i := 0; i < n; i++ {
		a := c07Action{Client: rapid.IntRange(0, nc-1).Draw(rt, "client")}
		switch rapid.IntRange(0, 9).Draw(rt, "action") {
		case 0, 1, 2:
			a.Op, a.Use = "use", spellings()
		case 3:
			a.Op, a.Use = "parallel_use", spellings()
			k := rapid.IntRange(2, nc).Draw(rt, "parallelk")
			a.Clients = rapid.SliceOfNDistinct(rapid.IntRange(0, nc-1), k, k, func(i int) int { return i }).Draw(rt, "parallelclients")
		case 4:
			a.Op = "reconnect"
			if rapid.IntRange(0, 4).Draw(rt, "backendloss") == 0 {
				a.Op, a.Host = "backend_loss", rapid.IntRange(0, 3).Draw(rt, "losshost")
				if rapid.Bool().Draw(rt, "joins") {
					a.Op = "host_joins"
				}
			}
		default:
			a.Op, a.Kind = "data", rapid.SampledFrom([]string{"query", "query", "prepare", "execute", "batch"}).Draw(rt, "kind")
		}
		c.Actions = append(c.Actions, a)
	}
	return c
}

func TestC07(t *testing.T) {
	rec := evid.New("C07", "exploration",
		"histories over 2..5 clients with different protocol versions (v3,v4,v5,DSEv1,DSEv2) and compressions against a backend with a generated keyspace set (lower-case, mixed-case and quote-requiring names): USE in every spelling (unquoted, upper-cased, quoted exact, quoted wrong case, non-existent), tokenised QUERY/PREPARE/EXECUTE/BATCH, several clients switching to the same keyspace at the same instant, client reconnects, loss and replacement of all backend connections of a host; "+
			"oracle: model = per-client (version, compression, current keyspace under Cassandra's identifier rule); every data request must arrive on a backend connection with that keyspace/version/compression, USE replies SET_KEYSPACE with the folded name or the backend's error and leaves the model unchanged; "+
			"non-trivial = >=2 clients hold different keyspaces at a data request, a data request after a failed USE, or a parallel USE; distinct by case content")
	defer finish(t, rec)
	rec.SetJournalAll(true)
	rec.Assume("the fake backend applies Cassandra's identifier rule to USE and records the keyspace of every connection")
	runProp(t, rec, "history", perShard(evid.Pick(4000, 200000)), func(rt *rapid.T) c07Case {
		c := c07Gen(rt)
		// classify with the model
		exists := map[string]bool{"system": true}
		for _, k := range c.Keyspaces {
			exists[k] = true
		}
		model := make([]string, len(c.Clients))
		var labels []string
		nontrivial := false
		failedBefore := make([]bool, len(c.Clients))
		for _, a := range c.Actions {
			switch a.Op {
			case "use", "parallel_use":
				id := fakecass.CQLIdent(a.Use)
				cls := a.Clients
				if a.Op == "use" {
					cls = []int{a.Client}
				} else {
					nontrivial = true
				}
				for _, ci := range cls {
					if exists[id] {
						model[ci] = id
						failedBefore[ci] = false
					} else {
						failedBefore[ci] = true
					}
				}
				labels = append(labels, a.Op+":"+useClass(a.Use)+":"+map[bool]string{true: "exists", false: "missing"}[exists[id]])
			case "backend_loss", "host_joins":
				labels = append(labels, map[string]string{"backend_loss": "backend-loss", "host_joins": "host-joins-later"}[a.Op])
				nontrivial = true
			case "reconnect":
				model[a.Client] = ""
				failedBefore[a.Client] = false
				labels = append(labels, "reconnect")
			case "data":
				labels = append(labels, "data:"+a.Kind)
				if failedBefore[a.Client] {
					nontrivial = true
					labels = append(labels, "data-after-failed-use")
				}
				distinct := map[string]bool{}
				for _, m := range model {
					distinct[m] = true
				}
				if len(distinct) >= 2 {
					nontrivial = true
				}
			}
		}
		for _, cl := range c.Clients {
			labels = append(labels, "client:"+protogen.VersionName(primitive.ProtocolVersion(cl.Version))+"/"+map[bool]string{true: cl.Comp, false: "plain"}[cl.Comp != ""])
		}
		key := ""
		if nontrivial {
			key = js(c)
		}
		rec.Case(key, labels...)
		if len(c.Actions) <= 6 {
			rec.Sample(c)
		}
		return c
	}, c07Check)
}
