// Package fakecass is a scriptable fake Cassandra/DSE cluster built on the reference
// protocol library. Hosts share one TCP port and differ by loopback address, as the
// proxy's default endpoint resolver expects. Every frame received is logged raw; replies
// to tokenised requests follow a per-token outcome script.
package fakecass

import (
	"crypto/md5"
	"encoding/hex"
	"encoding/json"
	"errors"
	"fmt"
	"net"
	"os"
	"regexp"
	"sort"
	"strings"
	"sync"
	"sync/atomic"
	"syscall"
	"time"

	"github.com/datastax/go-cassandra-native-protocol/datacodec"
	"github.com/datastax/go-cassandra-native-protocol/datatype"
	"github.com/datastax/go-cassandra-native-protocol/frame"
	"github.com/datastax/go-cassandra-native-protocol/message"
	"github.com/datastax/go-cassandra-native-protocol/primitive"

	"verif/harness/wire"
)

// Outcome is one scripted reply to one attempt of a tokenised request.
type Outcome struct {
	// ok unavailable read_timeout write_timeout bootstrapping overloaded server_error truncate
	// read_failure write_failure unprepared invalid syntax unauthorized already_exists
	// function_failure config_error protocol_error | hold silence drop reply_drop |
	// raw wrong_stream duplicate garbage
	Kind        string `json:"kind"`
	Received    int32  `json:"received,omitempty"`
	BlockFor    int32  `json:"block_for,omitempty"`
	DataPresent bool   `json:"data_present,omitempty"`
	WriteType   string `json:"write_type,omitempty"`
	// raw reply (C03): opcode, extra header flags and plain body bytes (hex)
	RawOp    int    `json:"raw_op,omitempty"`
	RawFlags int    `json:"raw_flags,omitempty"`
	RawBody  string `json:"raw_body,omitempty"`
	// hostile replies (C17): "rawframe" sends a frame with this version byte (0 = the normal response
	// version) on stream+RawStreamDelta, uncompressed whatever the connection negotiated;
	// "bytes" writes RawBody verbatim; Then says what follows: "" nothing | "ok" the normal reply | "drop"
	RawVersion     int    `json:"raw_version,omitempty"`
	RawStreamDelta int    `json:"raw_stream_delta,omitempty"`
	Then           string `json:"then,omitempty"`
	// UnpreparedID (hex): the id an "unprepared" outcome names (default: the request's own id)
	UnpreparedID string `json:"unprepared_id,omitempty"`
}

func (o Outcome) String() string {
	s := o.Kind
	switch o.Kind {
	case "read_timeout":
		s += fmt.Sprintf("(%d/%d,data=%v)", o.Received, o.BlockFor, o.DataPresent)
	case "write_timeout":
		s += "(" + o.WriteType + ")"
	}
	return s
}

// Attempt is one tokenised request received by some host.
type Attempt struct {
	Seq      int    `json:"seq"`
	Token    string `json:"token"`
	N        int    `json:"n"` // 0-based attempt index of this token
	Host     int    `json:"host"`
	Conn     int    `json:"conn"`
	Op       byte   `json:"op"`
	Version  byte   `json:"version"`
	Flags    byte   `json:"flags"`
	Stream   int16  `json:"stream"`
	Keyspace string `json:"keyspace"`
	Comp     string `json:"comp"`
	Outcome  string `json:"outcome"`
	Body     []byte `json:"-"` // body bytes as received on the wire
	Plain    []byte `json:"-"` // decompressed
	ReplyHdr []byte `json:"-"` // header of the reply sent (9 bytes), if any
	Reply    []byte `json:"-"` // body of the reply as sent on the wire
}

type held struct {
	conn    *Conn
	stream  int16
	version primitive.ProtocolVersion
	token   string
	n       int
}

type prepared struct {
	Text     string
	Keyspace string
}

type Cluster struct {
	mu   sync.Mutex
	cond *sync.Cond

	Port   int
	prefix string
	hosts  []*Host
	member map[int]bool

	MaxVersion  primitive.ProtocolVersion
	DSEVersion  string
	ReleaseVer  string
	CQLVersion  string
	Partitioner string
	DC          string
	Keyspaces   map[string]bool

	scripts  map[string][]Outcome
	forced   map[string]bool
	seen     map[string]int
	attempts []*Attempt
	heldq    []*held
	seq      int
	connSeq  int
	closed   bool
	// UnpreparedAuto: EXECUTE/BATCH of an id this host does not know answers UNPREPARED
	UnpreparedAuto bool
	// frames that are not tokenised (handshake, system queries, heartbeats), per opcode
	Untokenised map[byte]int
	// SystemReads counts non-control reads of system.local/peers that reached a backend (C09)
	Forwarded []string
	// HoldOptions parks the replies to OPTIONS on started connections (heartbeats) until ReleaseOptions
	HoldOptions bool
	heldOpts    []*held
	// internal: hostile replies to the proxy's own requests, keyed by "options" | "use" | "system_local" |
	// "system_peers" | "startup" | "register"; each entry is consumed once
	internal map[string][]Outcome
	// HoldStartup parks the replies to STARTUP (new backend connections hang in their handshake)
	HoldStartup      bool
	heldStartups     []*held
	forceID          map[string]string // PREPARE token -> key of a forced prepared id
	WarnOnUnprepared bool              // UNPREPARED and scripted error answers carry a warning (v4+)
	PreparedColumns  int               // > 0: PREPARED results describe that many result columns
	EchoPad          int               // > 0: successful results carry that many bytes of padding
	TextOnlyIDs      bool              // prepared ids are the MD5 of the statement text alone (the keyspace does not enter)
}

type Host struct {
	c        *Cluster
	Idx      int
	IP       string
	ln       net.Listener
	mu       sync.Mutex
	conns    map[int]*Conn
	prepared map[string]prepared
	up       bool
	Accepts  []time.Time // arrival times of connection attempts (C16 backoff)
	HostID   primitive.UUID
	DC       string                    // data center of this host ("" = the cluster's)
	RelVer   string                    // release_version this host reports ("" = the cluster's): rolling upgrade
	MaxVer   primitive.ProtocolVersion // this host's own maximum version (0 = the cluster's)
	reject   bool                      // accept connections and close them at once (records the attempt times)
}

type Conn struct {
	h          *Host
	ID         int
	nc         net.Conn
	wmu        sync.Mutex
	Version    primitive.ProtocolVersion
	Comp       string
	Keyspace   string
	Registered map[primitive.EventType]bool
	Started    bool
	Silent     int32
	closed     int32
	Frames     int
}

var clusterCounter int32

var tokenRe = regexp.MustCompile(`tk[0-9]{9}x`)

// Token formats a token. Tokens are what makes a request recognisable wherever it turns up.
func Token(n int) string { return fmt.Sprintf("tk%09dx", n) }

func FindToken(b []byte) string { return string(tokenRe.Find(b)) }

// New starts a cluster of n hosts (all members, all up).
func New(n int) (*Cluster, error) {
	c := &Cluster{member: map[int]bool{}, MaxVersion: primitive.ProtocolVersion4, ReleaseVer: "4.0.4", CQLVersion: "3.4.5",
		Partitioner: "org.apache.cassandra.dht.Murmur3Partitioner", DC: "dc1", Keyspaces: map[string]bool{"system": true},
		scripts: map[string][]Outcome{}, seen: map[string]int{}, UnpreparedAuto: true, Untokenised: map[byte]int{}}
	c.cond = sync.NewCond(&c.mu)
	for try := 0; try < 50; try++ {
		k := int(atomic.AddInt32(&clusterCounter, 1))
		c.prefix = fmt.Sprintf("127.%d.%d.", 1+(os.Getpid()+k/250)%250, 1+k%250)
		ln, err := net.Listen("tcp", c.prefix+"1:0")
		if err != nil {
			continue
		}
		c.Port = ln.Addr().(*net.TCPAddr).Port
		ok := true
		var lns []net.Listener
		lns = append(lns, ln)
		for i := 1; i < n; i++ {
			l2, err := net.Listen("tcp", fmt.Sprintf("%s%d:%d", c.prefix, i+1, c.Port))
			if err != nil {
				ok = false
				break
			}
			lns = append(lns, l2)
		}
		if !ok {
			for _, l := range lns {
				l.Close()
			}
			continue
		}
		for i, l := range lns {
			h := c.newHost(i)
			h.ln, h.up = l, true
			c.hosts = append(c.hosts, h)
			c.member[i] = true
			go h.serve(l)
		}
		return c, nil
	}
	return nil, errors.New("fakecass: could not bind a free address/port set")
}

func (c *Cluster) newHost(i int) *Host {
	h := &Host{c: c, Idx: i, IP: fmt.Sprintf("%s%d", c.prefix, i+1), conns: map[int]*Conn{}, prepared: map[string]prepared{}}
	sum := md5.Sum([]byte("host-" + h.IP))
	copy(h.HostID[:], sum[:])
	return h
}

// AddHost creates (and starts) one more host; member decides whether it is listed in the
// system tables right away.
func (c *Cluster) AddHost(member bool) (*Host, error) {
	c.mu.Lock()
	i := len(c.hosts)
	h := c.newHost(i)
	c.hosts = append(c.hosts, h)
	if member {
		c.member[i] = true
	}
	c.mu.Unlock()
	return h, h.Start()
}

func (c *Cluster) Host(i int) *Host { c.mu.Lock(); defer c.mu.Unlock(); return c.hosts[i] }
func (c *Cluster) NumHosts() int    { c.mu.Lock(); defer c.mu.Unlock(); return len(c.hosts) }
func (c *Cluster) Addr(i int) string {
	return fmt.Sprintf("%s%d:%d", c.prefix, i+1, c.Port)
}
func (c *Cluster) HostIP(i int) string { return fmt.Sprintf("%s%d", c.prefix, i+1) }

func (c *Cluster) SetMember(i int, m bool) { c.mu.Lock(); c.member[i] = m; c.mu.Unlock() }
func (c *Cluster) Members() []int {
	c.mu.Lock()
	defer c.mu.Unlock()
	var out []int
	for i, m := range c.member {
		if m {
			out = append(out, i)
		}
	}
	sort.Ints(out)
	return out
}

func (c *Cluster) Close() {
	c.mu.Lock()
	c.closed = true
	hosts := append([]*Host(nil), c.hosts...)
	c.cond.Broadcast()
	c.mu.Unlock()
	for _, h := range hosts {
		h.Stop()
	}
}

// Script sets the outcome script of a token (consumed one entry per attempt).
func (c *Cluster) Script(token string, outcomes []Outcome) {
	c.mu.Lock()
	c.scripts[token] = outcomes
	c.mu.Unlock()
}

// ScriptForced is Script for requests whose prepared ids the hosts do not know: the script is consulted instead of the
// automatic UNPREPARED answer.
func (c *Cluster) ScriptForced(token string, outcomes []Outcome) {
	c.mu.Lock()
	c.scripts[token] = outcomes
	if c.forced == nil {
		c.forced = map[string]bool{}
	}
	c.forced[token] = true
	c.mu.Unlock()
}

func (c *Cluster) isForced(token string) bool {
	c.mu.Lock()
	defer c.mu.Unlock()
	return token != "" && c.forced[token]
}

func (c *Cluster) Attempts(token string) []*Attempt {
	c.mu.Lock()
	defer c.mu.Unlock()
	var out []*Attempt
	for _, a := range c.attempts {
		if a.Token == token {
			out = append(out, a)
		}
	}
	return out
}

func (c *Cluster) AllAttempts() []*Attempt {
	c.mu.Lock()
	defer c.mu.Unlock()
	return append([]*Attempt(nil), c.attempts...)
}

// WaitAttempts waits until token has been received n times in total.
func (c *Cluster) WaitAttempts(token string, n int, d time.Duration) bool {
	deadline := time.Now().Add(d)
	c.mu.Lock()
	defer c.mu.Unlock()
	for c.seen[token] < n && !c.closed {
		if time.Now().After(deadline) {
			return false
		}
		c.waitLocked(deadline)
	}
	return c.seen[token] >= n
}

func (c *Cluster) waitLocked(deadline time.Time) {
	// cond.Wait with a deadline: a helper goroutine wakes the waiters
	t := time.AfterFunc(time.Until(deadline)+time.Millisecond, func() { c.mu.Lock(); c.cond.Broadcast(); c.mu.Unlock() })
	c.cond.Wait()
	t.Stop()
}

// WaitHeld waits until n replies are parked.
func (c *Cluster) WaitHeld(n int, d time.Duration) bool {
	deadline := time.Now().Add(d)
	c.mu.Lock()
	defer c.mu.Unlock()
	for len(c.heldq) < n && !c.closed {
		if time.Now().After(deadline) {
			return false
		}
		c.waitLocked(deadline)
	}
	return len(c.heldq) >= n
}

func (c *Cluster) HeldTokens() []string {
	c.mu.Lock()
	defer c.mu.Unlock()
	var out []string
	for _, h := range c.heldq {
		out = append(out, h.token)
	}
	return out
}

// Release answers the parked attempt of token with the echo result.
func (c *Cluster) Release(token string) bool {
	c.mu.Lock()
	var hd *held
	for i, h := range c.heldq {
		if h.token == token {
			hd = h
			c.heldq = append(c.heldq[:i], c.heldq[i+1:]...)
			break
		}
	}
	c.mu.Unlock()
	if hd == nil {
		return false
	}
	hd.conn.replyMsg(hd.version, hd.stream, hd.conn.echo(hd.token, hd.n), nil)
	return true
}

// SetKeyspace adds or removes an existing keyspace.
func (c *Cluster) SetKeyspace(ks string, exists bool) {
	c.mu.Lock()
	if exists {
		c.Keyspaces[ks] = true
	} else {
		delete(c.Keyspaces, ks)
	}
	c.mu.Unlock()
}

// UntokenisedCount returns how many untokenised frames with this opcode the hosts have received.
func (c *Cluster) UntokenisedCount(op byte) int {
	c.mu.Lock()
	defer c.mu.Unlock()
	return c.Untokenised[op]
}

// HeldOptions returns how many heartbeat replies are parked.
func (c *Cluster) HeldOptions() int { c.mu.Lock(); defer c.mu.Unlock(); return len(c.heldOpts) }

// ReleaseOptions answers every parked OPTIONS (late heartbeat replies) and stops parking.
func (c *Cluster) ReleaseOptions() int {
	c.mu.Lock()
	hs := c.heldOpts
	c.heldOpts = nil
	c.HoldOptions = false
	c.mu.Unlock()
	for _, h := range hs {
		h.conn.replyMsg(h.version, h.stream, &message.Supported{Options: map[string][]string{"CQL_VERSION": {c.CQLVersion}, "COMPRESSION": {"lz4", "snappy"}}}, nil)
	}
	return len(hs)
}

// QueueInternal queues a hostile reply to the next internal request of the given kind.
func (c *Cluster) QueueInternal(kind string, o Outcome) {
	c.mu.Lock()
	if c.internal == nil {
		c.internal = map[string][]Outcome{}
	}
	c.internal[kind] = append(c.internal[kind], o)
	c.mu.Unlock()
}

// ForceID makes the PREPARE whose text carries token answer with the id derived from key (instead of from the
// text): two different statements can thereby be given the same prepared id.
func (c *Cluster) ForceID(token, key string) {
	c.mu.Lock()
	if c.forceID == nil {
		c.forceID = map[string]string{}
	}
	c.forceID[token] = key
	c.mu.Unlock()
}

// SetEchoPad makes successful results big (n bytes of padding) or normal again (0).
func (c *Cluster) SetEchoPad(n int) { c.mu.Lock(); c.EchoPad = n; c.mu.Unlock() }

// ClearInternal forgets hostile replies that were queued but not consumed.
func (c *Cluster) ClearInternal() {
	c.mu.Lock()
	c.internal = nil
	c.mu.Unlock()
}

func (c *Cluster) InternalPending() int {
	c.mu.Lock()
	defer c.mu.Unlock()
	n := 0
	for _, v := range c.internal {
		n += len(v)
	}
	return n
}

// hostileInternal answers an internal request with a queued hostile outcome, if any.
func (c *Conn) hostileInternal(kind string, f *wire.Frame, v primitive.ProtocolVersion, normal func()) bool {
	cl := c.h.c
	cl.mu.Lock()
	q := cl.internal[kind]
	if len(q) == 0 || !c.Started && kind != "startup" {
		cl.mu.Unlock()
		return false
	}
	o := q[0]
	cl.internal[kind] = q[1:]
	cl.mu.Unlock()
	body, _ := hex.DecodeString(o.RawBody)
	switch o.Kind {
	case "bytes":
		c.WriteRaw(body)
	case "rawframe":
		vb := byte(v) | 0x80
		if o.RawVersion != 0 {
			vb = byte(o.RawVersion)
		}
		c.write(&wire.Frame{VersionByte: vb, Flags: byte(o.RawFlags), Stream: f.Stream + int16(o.RawStreamDelta), Op: byte(o.RawOp), Body: body})
	case "silence":
	case "drop":
		c.Close()
		return true
	default:
		uid := []byte{1, 2, 3}
		if o.UnpreparedID != "" {
			uid, _ = hex.DecodeString(o.UnpreparedID)
		}
		if m := ErrorFor(o, "hostile internal "+kind, v, uid); m != nil {
			c.replyMsg(v, f.Stream, m, nil)
		}
	}
	switch o.Then {
	case "ok":
		normal()
	case "drop":
		c.Close()
	}
	return true
}

// SetHoldStartup makes new backend connections hang in their handshake until ReleaseStartups.
func (c *Cluster) SetHoldStartup(b bool) { c.mu.Lock(); c.HoldStartup = b; c.mu.Unlock() }

func (c *Cluster) HeldStartups() int { c.mu.Lock(); defer c.mu.Unlock(); return len(c.heldStartups) }

func (c *Cluster) ReleaseStartups() {
	c.mu.Lock()
	hs := c.heldStartups
	c.heldStartups = nil
	c.HoldStartup = false
	c.mu.Unlock()
	for _, h := range hs {
		h.conn.replyMsg(h.version, h.stream, &message.Ready{}, nil)
	}
}

func (c *Cluster) SetHoldOptions(b bool) { c.mu.Lock(); c.HoldOptions = b; c.mu.Unlock() }

func (c *Cluster) ReleaseAll() {
	for _, t := range c.HeldTokens() {
		c.Release(t)
	}
}

// ---- host ----

func (h *Host) Start() error {
	h.mu.Lock()
	defer h.mu.Unlock()
	if h.up {
		return nil
	}
	var ln net.Listener
	var err error
	for try := 0; try < 100; try++ {
		ln, err = net.Listen("tcp", fmt.Sprintf("%s:%d", h.IP, h.c.Port))
		if err == nil || !errors.Is(err, syscall.EADDRINUSE) {
			break
		}
		time.Sleep(5 * time.Millisecond)
	}
	if err != nil {
		return err
	}
	h.ln, h.up = ln, true
	go h.serve(ln)
	return nil
}

// Stop closes the listener and every connection ("node down").
func (h *Host) Stop() {
	h.mu.Lock()
	if h.ln != nil {
		h.ln.Close()
	}
	h.up = false
	conns := make([]*Conn, 0, len(h.conns))
	for _, c := range h.conns {
		conns = append(conns, c)
	}
	h.mu.Unlock()
	for _, c := range conns {
		c.Close()
	}
}

// SetReject: the host keeps listening but closes every new connection at once and drops the existing ones
// ("process hung up"); the times of the connection attempts are recorded.
func (h *Host) SetReject(b bool) {
	h.mu.Lock()
	h.reject = b
	if b {
		h.Accepts = nil
	}
	h.mu.Unlock()
	if b {
		h.DropConns(nil)
	}
}

// SetRejectNew makes the host refuse new connections while keeping the established ones open.
func (h *Host) SetRejectNew() {
	h.mu.Lock()
	h.reject = true
	h.Accepts = nil
	h.mu.Unlock()
}

func (h *Host) Rejecting() bool { h.mu.Lock(); defer h.mu.Unlock(); return h.reject }

func (h *Host) Up() bool { h.mu.Lock(); defer h.mu.Unlock(); return h.up }

// Forget drops prepared statements ("restart" as far as the prepared cache goes).
func (h *Host) Forget(ids ...string) {
	h.mu.Lock()
	if len(ids) == 0 {
		h.prepared = map[string]prepared{}
	}
	for _, id := range ids {
		delete(h.prepared, id)
	}
	h.mu.Unlock()
}

func (h *Host) HasPrepared(id string) bool {
	h.mu.Lock()
	defer h.mu.Unlock()
	_, ok := h.prepared[id]
	return ok
}

// Conns returns the live connections (sorted by id).
func (h *Host) Conns() []*Conn {
	h.mu.Lock()
	defer h.mu.Unlock()
	var out []*Conn
	for _, c := range h.conns {
		out = append(out, c)
	}
	sort.Slice(out, func(i, j int) bool { return out[i].ID < out[j].ID })
	return out
}

// DropConns closes live connections selected by pick (nil = all); returns how many.
func (h *Host) DropConns(pick func(*Conn) bool) int {
	n := 0
	for _, c := range h.Conns() {
		if pick == nil || pick(c) {
			c.Close()
			n++
		}
	}
	return n
}

func (h *Host) AcceptTimes() []time.Time {
	h.mu.Lock()
	defer h.mu.Unlock()
	return append([]time.Time(nil), h.Accepts...)
}

func (h *Host) serve(ln net.Listener) {
	for {
		nc, err := ln.Accept()
		if err != nil {
			return
		}
		if tc, ok := nc.(*net.TCPConn); ok {
			tc.SetNoDelay(true)
		}
		h.c.mu.Lock()
		h.c.connSeq++
		id := h.c.connSeq
		h.c.mu.Unlock()
		c := &Conn{h: h, ID: id, nc: nc, Registered: map[primitive.EventType]bool{}}
		h.mu.Lock()
		if !h.up {
			h.mu.Unlock()
			nc.Close()
			continue
		}
		if h.reject {
			h.Accepts = append(h.Accepts, time.Now())
			h.mu.Unlock()
			nc.Close()
			continue
		}
		h.conns[id] = c
		h.Accepts = append(h.Accepts, time.Now())
		h.mu.Unlock()
		go c.loop()
	}
}

// ---- connection ----

func (c *Conn) Host() *Host { return c.h }

func (c *Conn) Close() {
	if atomic.CompareAndSwapInt32(&c.closed, 0, 1) {
		c.nc.Close()
		c.h.mu.Lock()
		delete(c.h.conns, c.ID)
		c.h.mu.Unlock()
	}
}

func (c *Conn) Closed() bool { return atomic.LoadInt32(&c.closed) != 0 }
func (c *Conn) SetSilent(b bool) {
	v := int32(0)
	if b {
		v = 1
	}
	atomic.StoreInt32(&c.Silent, v)
}
func (c *Conn) IsRegistered() bool {
	c.h.c.mu.Lock()
	defer c.h.c.mu.Unlock()
	return len(c.Registered) > 0
}

// IsStarted reports whether the connection completed STARTUP.
func (c *Conn) IsStarted() bool {
	c.h.c.mu.Lock()
	defer c.h.c.mu.Unlock()
	return c.Started
}

func (c *Conn) Info() (string, string) {
	c.h.c.mu.Lock()
	defer c.h.c.mu.Unlock()
	return c.Keyspace, c.Comp
}

func (c *Conn) loop() {
	defer c.Close()
	for {
		f, err := wire.Read(c.nc)
		if err != nil {
			return
		}
		c.Frames++
		if atomic.LoadInt32(&c.Silent) != 0 {
			continue
		}
		if !c.handle(f) {
			return
		}
	}
}

func (c *Conn) write(f *wire.Frame) {
	c.wmu.Lock()
	_, _ = c.nc.Write(f.Bytes())
	c.wmu.Unlock()
}

// WriteRaw writes arbitrary bytes to the peer (hostile backend behaviour).
func (c *Conn) WriteRaw(b []byte) {
	c.wmu.Lock()
	_, _ = c.nc.Write(b)
	c.wmu.Unlock()
}

func compressible(op primitive.OpCode) bool {
	return op != primitive.OpCodeReady && op != primitive.OpCodeSupported && op != primitive.OpCodeAuthenticate
}

// replyMsg encodes and sends a response; returns the frame sent.
// extrasFor: what a real node puts in front of a response body - a tracing id when the request asked for tracing,
// warnings when the cluster is told to warn (v4+).
func (c *Conn) extrasFor(req *wire.Frame, v primitive.ProtocolVersion) *frame.Body {
	var b *frame.Body
	if req.Flags&wire.FlagTracing != 0 {
		b = &frame.Body{TracingId: &primitive.UUID{0x11, 0x22, 0x33, 0x44, 0x55, 0x66, 0x47, 0x88, 0x99, 0xaa, 0xbb, 0xcc, 0xdd, 0xee, 0xff, 0x01}}
	}
	c.h.c.mu.Lock()
	warn := c.h.c.WarnOnUnprepared
	c.h.c.mu.Unlock()
	if warn && v >= primitive.ProtocolVersion4 {
		if b == nil {
			b = &frame.Body{}
		}
		b.Warnings = []string{"fakecass: this node is about to be decommissioned"}
	}
	return b
}

func (c *Conn) replyMsg(v primitive.ProtocolVersion, stream int16, msg message.Message, extra *frame.Body, pre ...func(*wire.Frame)) *wire.Frame {
	b := &frame.Body{Message: msg}
	if extra != nil {
		b.TracingId, b.CustomPayload, b.Warnings = extra.TracingId, extra.CustomPayload, extra.Warnings
	}
	plain, flags, err := wire.EncodeBody(v, b, true)
	if err != nil {
		// fall back to a server error so that the peer is never left without a reply by a harness bug
		plain, flags, _ = wire.EncodeBody(v, &frame.Body{Message: &message.ServerError{ErrorMessage: "fakecass encode: " + err.Error()}}, true)
		msg = &message.ServerError{}
	}
	return c.replyRaw(v, stream, msg.GetOpCode(), flags, plain, pre...)
}

func (c *Conn) replyRaw(v primitive.ProtocolVersion, stream int16, op primitive.OpCode, flags byte, plain []byte, pre ...func(*wire.Frame)) *wire.Frame {
	alg := ""
	c.h.c.mu.Lock()
	if c.Comp != "" && compressible(op) {
		alg = c.Comp
	}
	c.h.c.mu.Unlock()
	f, err := wire.Build(v, true, flags, stream, op, plain, alg)
	if err != nil {
		return nil
	}
	for _, p := range pre {
		p(f) // record what is about to be sent before the peer can observe it
	}
	c.write(f)
	return f
}

func (c *Conn) echo(token string, n int) message.Message {
	c.h.c.mu.Lock()
	info := map[string]interface{}{"tok": token, "host": c.h.Idx, "conn": c.ID, "ks": c.Keyspace, "ver": int(c.Version), "comp": c.Comp, "attempt": n}
	c.h.c.mu.Unlock()
	js, _ := json.Marshal(info)
	c.h.c.mu.Lock()
	pad := c.h.c.EchoPad
	c.h.c.mu.Unlock()
	if pad > 0 {
		// a big result: the echo plus a column of padding
		return &message.RowsResult{
			Metadata: &message.RowsMetadata{ColumnCount: 2, Columns: []*message.ColumnMetadata{{Keyspace: "fake", Table: "echo", Name: "echo", Type: datatype.Varchar}, {Keyspace: "fake", Table: "echo", Name: "pad", Index: 1, Type: datatype.Blob}}},
			Data:     message.RowSet{message.Row{js, make([]byte, pad)}},
		}
	}
	return &message.RowsResult{
		Metadata: &message.RowsMetadata{ColumnCount: 1, Columns: []*message.ColumnMetadata{{Keyspace: "fake", Table: "echo", Name: "echo", Type: datatype.Varchar}}},
		Data:     message.RowSet{message.Row{js}},
	}
}

var useRe = regexp.MustCompile(`(?is)^\s*USE\s+("(?:[^"]|"")*"|[A-Za-z][A-Za-z0-9_]*)\s*;?\s*$`)

// CQLIdent applies Cassandra's identifier rule: unquoted -> lower case, quoted -> exact.
func CQLIdent(s string) string {
	if len(s) >= 2 && s[0] == '"' && s[len(s)-1] == '"' {
		return strings.ReplaceAll(s[1:len(s)-1], `""`, `"`)
	}
	return strings.ToLower(s)
}

func enc(c datacodec.Codec, v interface{}, ver primitive.ProtocolVersion) []byte {
	b, err := c.Encode(v, ver)
	if err != nil {
		panic(fmt.Sprintf("fakecass: cannot encode %v: %v", v, err))
	}
	return b
}

var setOfVarchar, _ = datacodec.NewSet(datatype.NewSet(datatype.Varchar))

func (c *Conn) systemRows(v primitive.ProtocolVersion, peers bool) message.Message {
	cl := c.h.c
	cl.mu.Lock()
	defer cl.mu.Unlock()
	cols := []*message.ColumnMetadata{}
	tbl := "local"
	if peers {
		tbl = "peers"
	}
	add := func(name string, t datatype.DataType) {
		cols = append(cols, &message.ColumnMetadata{Keyspace: "system", Table: tbl, Name: name, Type: t})
	}
	if peers {
		add("peer", datatype.Inet)
	} else {
		add("key", datatype.Varchar)
		add("partitioner", datatype.Varchar)
		add("cluster_name", datatype.Varchar)
		add("cql_version", datatype.Varchar)
		add("native_protocol_version", datatype.Varchar)
	}
	add("rpc_address", datatype.Inet)
	add("data_center", datatype.Varchar)
	add("rack", datatype.Varchar)
	add("tokens", datatype.NewSet(datatype.Varchar))
	add("release_version", datatype.Varchar)
	add("host_id", datatype.Uuid)
	add("schema_version", datatype.Uuid)
	if cl.DSEVersion != "" {
		add("dse_version", datatype.Varchar)
	}
	row := func(h *Host) message.Row {
		ip := net.ParseIP(h.IP)
		var r message.Row
		if peers {
			r = append(r, enc(datacodec.Inet, ip, v))
		} else {
			r = append(r, enc(datacodec.Varchar, "local", v), enc(datacodec.Varchar, cl.Partitioner, v), enc(datacodec.Varchar, "fake cluster", v),
				enc(datacodec.Varchar, cl.CQLVersion, v), enc(datacodec.Varchar, fmt.Sprint(int(v)), v))
		}
		hid := h.HostID
		dc := cl.DC
		if h.DC != "" {
			dc = h.DC
		}
		rel := cl.ReleaseVer
		if h.RelVer != "" {
			rel = h.RelVer
		}
		r = append(r, enc(datacodec.Inet, ip, v), enc(datacodec.Varchar, dc, v), enc(datacodec.Varchar, "r1", v),
			enc(setOfVarchar, []string{fmt.Sprint(h.Idx * 1000)}, v), enc(datacodec.Varchar, rel, v),
			enc(datacodec.Uuid, &hid, v), enc(datacodec.Uuid, &hid, v))
		if cl.DSEVersion != "" {
			r = append(r, enc(datacodec.Varchar, cl.DSEVersion, v))
		}
		return r
	}
	var data message.RowSet
	if peers {
		for i, h := range cl.hosts {
			if cl.member[i] && h != c.h {
				data = append(data, row(h))
			}
		}
	} else {
		data = append(data, row(c.h))
	}
	return &message.RowsResult{Metadata: &message.RowsMetadata{ColumnCount: int32(len(cols)), Columns: cols}, Data: data}
}

func writeType(s string) primitive.WriteType {
	switch s {
	case "batch_log":
		return primitive.WriteTypeBatchLog
	case "batch":
		return primitive.WriteTypeBatch
	case "unlogged_batch":
		return primitive.WriteTypeUnloggedBatch
	case "counter":
		return primitive.WriteTypeCounter
	case "cas":
		return primitive.WriteTypeCas
	case "view":
		return primitive.WriteTypeView
	case "cdc":
		return primitive.WriteTypeCdc
	}
	return primitive.WriteTypeSimple
}

// ErrorFor builds the error message of a scripted outcome.
func ErrorFor(o Outcome, text string, v primitive.ProtocolVersion, id []byte) message.Message {
	switch o.Kind {
	case "unavailable":
		return &message.Unavailable{ErrorMessage: text, Consistency: primitive.ConsistencyLevelQuorum, Required: 2, Alive: 1}
	case "read_timeout":
		return &message.ReadTimeout{ErrorMessage: text, Consistency: primitive.ConsistencyLevelQuorum, Received: o.Received, BlockFor: o.BlockFor, DataPresent: o.DataPresent}
	case "write_timeout":
		return &message.WriteTimeout{ErrorMessage: text, Consistency: primitive.ConsistencyLevelQuorum, Received: 1, BlockFor: 2, WriteType: writeType(o.WriteType)}
	case "bootstrapping":
		return &message.IsBootstrapping{ErrorMessage: text}
	case "overloaded":
		return &message.Overloaded{ErrorMessage: text}
	case "server_error":
		return &message.ServerError{ErrorMessage: text}
	case "truncate":
		return &message.TruncateError{ErrorMessage: text}
	case "read_failure":
		m := &message.ReadFailure{ErrorMessage: text, Consistency: primitive.ConsistencyLevelQuorum, Received: 1, BlockFor: 2, DataPresent: false}
		if v.SupportsReadWriteFailureReasonMap() {
			m.FailureReasons = []*primitive.FailureReason{{Endpoint: net.ParseIP("127.0.0.1"), Code: primitive.FailureCodeUnknown}}
		} else {
			m.NumFailures = 1
		}
		return m
	case "write_failure":
		m := &message.WriteFailure{ErrorMessage: text, Consistency: primitive.ConsistencyLevelQuorum, Received: 1, BlockFor: 2, WriteType: primitive.WriteTypeSimple}
		if v.SupportsReadWriteFailureReasonMap() {
			m.FailureReasons = []*primitive.FailureReason{{Endpoint: net.ParseIP("127.0.0.1"), Code: primitive.FailureCodeUnknown}}
		} else {
			m.NumFailures = 1
		}
		return m
	case "unprepared":
		if id == nil {
			id = []byte{0}
		}
		return &message.Unprepared{ErrorMessage: text, Id: id}
	case "invalid":
		return &message.Invalid{ErrorMessage: text}
	case "syntax":
		return &message.SyntaxError{ErrorMessage: text}
	case "unauthorized":
		return &message.Unauthorized{ErrorMessage: text}
	case "already_exists":
		return &message.AlreadyExists{ErrorMessage: text, Keyspace: "ks", Table: "t"}
	case "function_failure":
		return &message.FunctionFailure{ErrorMessage: text, Keyspace: "ks", Function: "f", Arguments: []string{"int"}}
	case "config_error":
		return &message.ConfigError{ErrorMessage: text}
	case "protocol_error":
		return &message.ProtocolError{ErrorMessage: text}
	}
	return nil
}

func (c *Conn) handle(f *wire.Frame) bool {
	cl := c.h.c
	v := f.Version()
	op := primitive.OpCode(f.Op)
	cl.mu.Lock()
	comp := c.Comp
	cl.mu.Unlock()
	plain, err := f.Plain(comp)
	if err != nil {
		c.replyMsg(cl.respVersion(v), f.Stream, &message.ProtocolError{ErrorMessage: "fakecass: cannot decompress: " + err.Error()}, nil)
		return true
	}
	if f.IsResponse() {
		c.replyMsg(cl.respVersion(v), f.Stream, &message.ProtocolError{ErrorMessage: "fakecass: wrong frame direction"}, nil)
		return true
	}
	maxV := cl.MaxVersion
	if c.h.MaxVer != 0 {
		maxV = c.h.MaxVer
	}
	if v > maxV || v < primitive.ProtocolVersion3 || !v.IsSupported() {
		c.replyMsg(cl.respVersion(v), f.Stream, &message.ProtocolError{ErrorMessage: fmt.Sprintf("Invalid or unsupported protocol version (%d); supported versions are (3/v3, 4/v4 ...)", int(v))}, nil)
		return true
	}
	cl.mu.Lock()
	started, cv := c.Started, c.Version
	cl.mu.Unlock()
	if started && v != cv && primitive.OpCode(f.Op) != primitive.OpCodeStartup && primitive.OpCode(f.Op) != primitive.OpCodeOptions {
		// as Cassandra does: every frame on a connection must carry the version of its STARTUP
		c.replyMsg(cv, f.Stream, &message.ProtocolError{ErrorMessage: fmt.Sprintf("Invalid message version. Got %d but previous messages on this connection had version %d", int(v), int(cv))}, nil)
		return true
	}
	body, derr := f.Decode(comp)

	token := ""
	switch op {
	case primitive.OpCodeQuery, primitive.OpCodePrepare, primitive.OpCodeExecute, primitive.OpCodeBatch:
		token = FindToken(plain)
	}
	if token == "" {
		cl.mu.Lock()
		cl.Untokenised[f.Op]++
		cl.mu.Unlock()
	}

	if derr != nil {
		if token != "" {
			c.record(f, plain, token, "undecodable")
		}
		c.replyMsg(v, f.Stream, &message.ProtocolError{ErrorMessage: "fakecass: cannot decode request: " + derr.Error()}, nil)
		return true
	}

	switch m := body.Message.(type) {
	case *message.Options:
		if c.hostileInternal("options", f, v, func() {
			c.replyMsg(v, f.Stream, &message.Supported{Options: map[string][]string{"CQL_VERSION": {cl.CQLVersion}, "COMPRESSION": {"lz4", "snappy"}}}, nil)
		}) {
			return true
		}
		cl.mu.Lock()
		if cl.HoldOptions && c.Started {
			cl.heldOpts = append(cl.heldOpts, &held{conn: c, stream: f.Stream, version: v})
			cl.cond.Broadcast()
			cl.mu.Unlock()
			return true
		}
		cl.mu.Unlock()
		c.replyMsg(v, f.Stream, &message.Supported{Options: map[string][]string{"CQL_VERSION": {cl.CQLVersion}, "COMPRESSION": {"lz4", "snappy"}}}, nil)
		return true
	case *message.Startup:
		if alg, ok := m.Options["COMPRESSION"]; ok {
			alg = strings.ToLower(alg)
			if alg != "lz4" && alg != "snappy" {
				c.replyMsg(v, f.Stream, &message.ProtocolError{ErrorMessage: "Unknown compression algorithm: " + alg}, nil)
				return true
			}
			cl.mu.Lock()
			c.Comp = alg
			cl.mu.Unlock()
		}
		cl.mu.Lock()
		c.Version, c.Started = v, true
		if cl.HoldStartup {
			cl.heldStartups = append(cl.heldStartups, &held{conn: c, stream: f.Stream, version: v})
			cl.cond.Broadcast()
			cl.mu.Unlock()
			return true
		}
		cl.mu.Unlock()
		c.replyMsg(v, f.Stream, &message.Ready{}, nil)
		return true
	case *message.Register:
		cl.mu.Lock()
		for _, t := range m.EventTypes {
			c.Registered[t] = true
		}
		cl.cond.Broadcast()
		cl.mu.Unlock()
		c.replyMsg(v, f.Stream, &message.Ready{}, nil)
		return true
	case *message.Query:
		if token == "" {
			q := strings.TrimSpace(m.Query)
			if sm := useRe.FindStringSubmatch(q); sm != nil {
				ks := CQLIdent(sm[1])
				if c.hostileInternal("use", f, v, func() { c.replyMsg(v, f.Stream, &message.SetKeyspaceResult{Keyspace: ks}, nil) }) {
					return true
				}
				if strings.HasPrefix(ks, "refuse_") {
					// convention: USE of refuse_<kind>_... is refused with that error (a node that is overloaded, still
					// bootstrapping, or does not let this user in)
					kind := strings.SplitN(ks, "_", 3)[1]
					if m := ErrorFor(Outcome{Kind: kind}, fmt.Sprintf("Keyspace '%s' does not exist (USE refused with %s)", ks, kind), v, nil); m != nil {
						c.replyMsg(v, f.Stream, m, nil)
						return true
					}
				}
				cl.mu.Lock()
				ok := cl.Keyspaces[ks]
				if ok {
					c.Keyspace = ks
				}
				cl.mu.Unlock()
				if ok {
					c.replyMsg(v, f.Stream, &message.SetKeyspaceResult{Keyspace: ks}, nil)
				} else {
					c.replyMsg(v, f.Stream, &message.Invalid{ErrorMessage: fmt.Sprintf("Keyspace '%s' does not exist", ks)}, nil)
				}
				return true
			}
			lq := strings.ToLower(q)
			if lq == "select * from system.local" {
				if c.hostileInternal("system_local", f, v, func() { c.replyMsg(v, f.Stream, c.systemRows(v, false), nil) }) {
					return true
				}
				c.replyMsg(v, f.Stream, c.systemRows(v, false), nil)
				return true
			}
			if lq == "select * from system.peers" {
				if c.hostileInternal("system_peers", f, v, func() { c.replyMsg(v, f.Stream, c.systemRows(v, true), nil) }) {
					return true
				}
				c.replyMsg(v, f.Stream, c.systemRows(v, true), nil)
				return true
			}
		}
		return c.scripted(f, plain, token, nil, v)
	case *message.Prepare:
		ks := m.Keyspace
		cl.mu.Lock()
		if ks == "" {
			ks = c.Keyspace
		}
		cl.mu.Unlock()
		sum := md5.Sum([]byte(ks + "\x00" + m.Query))
		cl.mu.Lock()
		if cl.TextOnlyIDs {
			sum = md5.Sum([]byte(m.Query)) // ids that depend on the statement text alone (as some backends and mocks do)
		}
		cl.mu.Unlock()
		// A backend is free to hand out whatever ids it likes. ForceID makes PREPAREs carrying given tokens share
		// one id, so that a history can redefine what an id means.
		cl.mu.Lock()
		if key, ok := cl.forceID[token]; ok {
			sum = md5.Sum([]byte("forced-id\x00" + key))
		}
		cl.mu.Unlock()
		id := sum[:]
		return c.scripted(f, plain, token, func() message.Message {
			c.h.mu.Lock()
			c.h.prepared[hex.EncodeToString(id)] = prepared{Text: m.Query, Keyspace: ks}
			c.h.mu.Unlock()
			r := &message.PreparedResult{PreparedQueryId: id, VariablesMetadata: &message.VariablesMetadata{}, ResultMetadata: &message.RowsMetadata{}}
			cl.mu.Lock()
			ncols := cl.PreparedColumns
			cl.mu.Unlock()
			if ncols > 0 {
				// a wide table: the PREPARED result describes many columns (and takes a while to decode)
				cols := make([]*message.ColumnMetadata, ncols)
				for i := range cols {
					cols[i] = &message.ColumnMetadata{Keyspace: "ks1", Table: "wide", Name: fmt.Sprintf("col_%04d", i), Index: int32(i), Type: datatype.Varchar}
				}
				r.ResultMetadata = &message.RowsMetadata{ColumnCount: int32(ncols), Columns: cols}
			}
			if v.SupportsResultMetadataId() {
				r.ResultMetadataId = []byte{0xAB, 0xCD}
			}
			return r
		}, v)
	case *message.Execute:
		if cl.UnpreparedAuto && !cl.isForced(token) && !c.h.HasPrepared(hex.EncodeToString(m.QueryId)) {
			c.record(f, plain, token, "unprepared(auto)")
			c.replyMsg(v, f.Stream, &message.Unprepared{ErrorMessage: "Prepared query with ID " + hex.EncodeToString(m.QueryId) + " not found " + token, Id: m.QueryId}, c.extrasFor(f, v))
			return true
		}
		return c.scriptedWithID(f, plain, token, nil, v, m.QueryId)
	case *message.Batch:
		if cl.UnpreparedAuto && !cl.isForced(token) {
			for _, ch := range m.Children {
				if ch.Id != nil && !c.h.HasPrepared(hex.EncodeToString(ch.Id)) {
					c.record(f, plain, token, "unprepared(auto)")
					c.replyMsg(v, f.Stream, &message.Unprepared{ErrorMessage: "Prepared query with ID " + hex.EncodeToString(ch.Id) + " not found " + token, Id: ch.Id}, c.extrasFor(f, v))
					return true
				}
			}
		}
		return c.scripted(f, plain, token, nil, v)
	default:
		c.replyMsg(v, f.Stream, &message.ProtocolError{ErrorMessage: "fakecass: unsupported request"}, nil)
		return true
	}
}

func (cl *Cluster) respVersion(v primitive.ProtocolVersion) primitive.ProtocolVersion {
	if v.IsSupported() && v >= primitive.ProtocolVersion3 && v <= cl.MaxVersion {
		return v
	}
	return cl.MaxVersion
}

// record appends an attempt to the log and returns it with its per-token index.
func (c *Conn) record(f *wire.Frame, plain []byte, token, outcome string) *Attempt {
	cl := c.h.c
	cl.mu.Lock()
	defer cl.mu.Unlock()
	cl.seq++
	a := &Attempt{Seq: cl.seq, Token: token, N: cl.seen[token], Host: c.h.Idx, Conn: c.ID, Op: f.Op, Version: f.VersionByte, Flags: f.Flags,
		Stream: f.Stream, Keyspace: c.Keyspace, Comp: c.Comp, Outcome: outcome, Body: f.Body, Plain: plain}
	if token != "" {
		cl.seen[token]++
		cl.attempts = append(cl.attempts, a)
	}
	cl.cond.Broadcast()
	return a
}

func (c *Conn) scripted(f *wire.Frame, plain []byte, token string, okMsg func() message.Message, v primitive.ProtocolVersion) bool {
	return c.scriptedWithID(f, plain, token, okMsg, v, nil)
}

// scripted answers a tokenised request according to the token's script. Returns false if
// the connection must be closed.
func (c *Conn) scriptedWithID(f *wire.Frame, plain []byte, token string, okMsg func() message.Message, v primitive.ProtocolVersion, id []byte) bool {
	cl := c.h.c
	o := Outcome{Kind: "ok"}
	cl.mu.Lock()
	if token != "" {
		if s := cl.scripts[token]; cl.seen[token] < len(s) {
			o = s[cl.seen[token]]
		}
	}
	cl.mu.Unlock()
	a := c.record(f, plain, token, o.String())
	setReply := func(fr *wire.Frame) {
		if fr != nil {
			cl.mu.Lock()
			a.ReplyHdr, a.Reply = fr.Bytes()[:9], fr.Body
			cl.mu.Unlock()
		}
	}
	ok := func() message.Message {
		if okMsg != nil {
			return okMsg()
		}
		return c.echo(token, a.N)
	}
	text := fmt.Sprintf("scripted %s tok=%s attempt=%d host=%d", o.Kind, token, a.N, c.h.Idx)
	switch o.Kind {
	case "ok", "":
		c.replyMsg(v, f.Stream, ok(), nil, setReply)
	case "hold":
		cl.mu.Lock()
		cl.heldq = append(cl.heldq, &held{conn: c, stream: f.Stream, version: v, token: token, n: a.N})
		cl.cond.Broadcast()
		cl.mu.Unlock()
	case "silence":
		// no reply; the case is expected to drop the connection later
	case "drop":
		return false
	case "reply_drop":
		c.replyMsg(v, f.Stream, ok(), nil, setReply)
		return false
	case "raw":
		body, _ := hex.DecodeString(o.RawBody)
		c.replyRaw(v, f.Stream, primitive.OpCode(o.RawOp), byte(o.RawFlags), body, setReply)
	case "rawframe", "bytes":
		body, _ := hex.DecodeString(o.RawBody)
		if o.Kind == "bytes" {
			c.WriteRaw(body)
		} else {
			vb := byte(v) | 0x80
			if o.RawVersion != 0 {
				vb = byte(o.RawVersion)
			}
			fr := &wire.Frame{VersionByte: vb, Flags: byte(o.RawFlags), Stream: f.Stream + int16(o.RawStreamDelta), Op: byte(o.RawOp), Body: body}
			setReply(fr)
			c.write(fr)
		}
		switch o.Then {
		case "ok":
			c.replyMsg(v, f.Stream, ok(), nil)
		case "drop":
			return false
		}
	case "wrong_stream":
		c.replyMsg(v, f.Stream+1000, ok(), nil, setReply)
	case "duplicate":
		m := ok()
		c.replyMsg(v, f.Stream, m, nil, setReply)
		c.replyMsg(v, f.Stream, m, nil)
	case "garbage":
		c.WriteRaw([]byte{0xde, 0xad, 0xbe, 0xef, 0, 1, 2, 3, 4, 5, 6, 7, 8, 9, 10, 11})
	default:
		if o.UnpreparedID != "" {
			id, _ = hex.DecodeString(o.UnpreparedID)
		}
		if m := ErrorFor(o, text, v, id); m != nil {
			// like a real node: a tracing id if the request asked for one, warnings if the cluster is told to warn
			c.replyMsg(v, f.Stream, m, c.extrasFor(f, v), setReply)
		} else {
			c.replyMsg(v, f.Stream, &message.ServerError{ErrorMessage: "fakecass: unknown outcome " + o.Kind}, nil, setReply)
		}
	}
	return true
}

// Emit sends an event to every live connection registered for its type; returns how many.
func (c *Cluster) Emit(ev message.Message, typ primitive.EventType) int {
	n := 0
	c.mu.Lock()
	hosts := append([]*Host(nil), c.hosts...)
	c.mu.Unlock()
	for _, h := range hosts {
		for _, cn := range h.Conns() {
			c.mu.Lock()
			reg, v := cn.Registered[typ], cn.Version
			c.mu.Unlock()
			if reg {
				cn.replyMsg(v, -1, ev, nil)
				n++
			}
		}
	}
	return n
}

// RegisteredConns lists live connections that registered for events (control connections).
func (c *Cluster) RegisteredConns() []*Conn {
	var out []*Conn
	c.mu.Lock()
	hosts := append([]*Host(nil), c.hosts...)
	c.mu.Unlock()
	for _, h := range hosts {
		for _, cn := range h.Conns() {
			c.mu.Lock()
			reg := len(cn.Registered) > 0
			c.mu.Unlock()
			if reg {
				out = append(out, cn)
			}
		}
	}
	return out
}

// TotalConns counts live started connections per host.
func (c *Cluster) LiveConns() map[int]int {
	out := map[int]int{}
	c.mu.Lock()
	hosts := append([]*Host(nil), c.hosts...)
	c.mu.Unlock()
	for _, h := range hosts {
		out[h.Idx] = len(h.Conns())
	}
	return out
}
