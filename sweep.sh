#!/bin/bash
# usage: sweep.sh <tier> [ID...]   run the given tier of every (or the listed) check sequentially on the unchanged tree; one summary line each
cd /verif
tier=$1; shift
ids="$@"; [ -z "$ids" ] && ids=$(for i in $(seq -w 1 20); do echo C$i; done)
for id in $ids; do
  t0=$(date +%s)
  out=$(./run $id $tier 2>&1); rc=$?
  t1=$(date +%s)
  echo "$id $tier rc=$rc wall=$((t1-t0))s $(echo "$out" | grep -E '^(VIOLATION|INCONCLUSIVE|KNOWN)' | cut -c1-300 | head -5 | tr '\n' '|')"
  if [ $rc -ne 0 ]; then mkdir -p /tmp/soak; rm -rf /tmp/soak/$id-$tier; mkdir -p /tmp/soak/$id-$tier; cp out/$id/fail-* out/$id/*.log /tmp/soak/$id-$tier/ 2>/dev/null; fi
done
echo sweep-done
