package checks

import (
	"crypto/tls"
	"fmt"
	"sort"
	"strings"
	"sync"
	"sync/atomic"
	"testing"

	"github.com/datastax/cql-proxy/proxycore"
	"pgregory.net/rapid"

	"verif/harness/evid"
)

// ---- C15: query plans visit each live host exactly once, in round-robin rotation ----
//
// Case = a history of operations on one load balancer. Model = the set of member keys.

type c15Op struct {
	Op   string `json:"op"`             // boot add remove plan next drain burst
	Host int    `json:"host,omitempty"` // add/remove
	Set  []int  `json:"set,omitempty"`  // boot
	Plan int    `json:"plan,omitempty"` // next/drain: index into plans created so far (mod len)
	N    int    `json:"n,omitempty"`    // burst: number of consecutive plans to create+drain
}

type c15Case struct {
	Counter *uint64 `json:"counter,omitempty"` // place the plan counter here first (hook)
	Ops     []c15Op `json:"ops"`
	SNI     bool    `json:"sni_endpoints,omitempty"` // all hosts share one address, keys differ
}

// c15SNI selects the kind of endpoint the hosts of the current case have: plain address endpoints, or endpoints
// that all share one address and differ only in their key (what an Astra bundle produces: every node is reached
// through the same SNI proxy address). Set at the start of every case; cases run one at a time.
var c15SNI atomic.Bool

type c15SNIEndpoint struct{ id int }

func (e c15SNIEndpoint) String() string         { return e.Key() }
func (e c15SNIEndpoint) Addr() string           { return "sni-proxy.example:29042" }
func (e c15SNIEndpoint) IsResolved() bool       { return false }
func (e c15SNIEndpoint) TLSConfig() *tls.Config { return nil }
func (e c15SNIEndpoint) Key() string {
	return fmt.Sprintf("sni-proxy.example:29042:host-%04d-4000-8000-000000000000", e.id)
}

func c15Host(i int) *proxycore.Host {
	if c15SNI.Load() {
		return &proxycore.Host{Endpoint: c15SNIEndpoint{id: i}, DC: "dc1"}
	}
	return &proxycore.Host{Endpoint: proxycore.NewEndpoint(fmt.Sprintf("127.0.0.%d:9042", i+1)), DC: "dc1"}
}

type c15Plan struct {
	qp       proxycore.QueryPlan
	snapshot map[string]bool
	seen     map[string]bool
	done     bool
	order    []string
}

func (p *c15Plan) next() *evid.Fail {
	h := p.qp.Next()
	if h == nil {
		if len(p.seen) != len(p.snapshot) {
			return evid.Failf("plan-short", "plan exhausted after %d hosts %v but membership at creation had %d: %v", len(p.seen), p.order, len(p.snapshot), keys(p.snapshot))
		}
		p.done = true
		return nil
	}
	k := h.Endpoint.Key() // identity = the endpoint's key, not Host.Key(), which is code under test
	if p.done {
		return evid.Failf("plan-after-exhaustion", "plan yielded %s after reporting exhaustion", k)
	}
	if !p.snapshot[k] {
		return evid.Failf("plan-nonmember", "plan yielded %s which was not a member when the plan was created (members %v)", k, keys(p.snapshot))
	}
	if p.seen[k] {
		return evid.Failf("plan-duplicate", "plan yielded %s twice (order so far %v)", k, p.order)
	}
	p.seen[k] = true
	p.order = append(p.order, k)
	return nil
}

func (p *c15Plan) drain() *evid.Fail {
	for i := 0; i < len(p.snapshot)+3; i++ {
		if f := p.next(); f != nil {
			return f
		}
	}
	if !p.done {
		return evid.Failf("plan-no-exhaustion", "plan never reported exhaustion: %v", p.order)
	}
	return nil
}

func keys(m map[string]bool) []string {
	var ks []string
	for k := range m {
		ks = append(ks, k)
	}
	sort.Strings(ks)
	return ks
}

func c15Check(c c15Case) *evid.Fail {
	c15SNI.Store(c.SNI)
	defer c15SNI.Store(false)
	lb := proxycore.NewRoundRobinLoadBalancer()
	wrap, skipRotation := false, false
	if c.Counter != nil {
		if !proxycore.VerifSetPlanCounter(lb, *c.Counter) {
			return nil
		}
		wrap = true
		// 2^64 plans cannot be created (584 years at 10^9 plans/s): across that boundary only
		// per-plan validity is required, not rotation continuity.
		skipRotation = *c.Counter > ^uint64(0)-64
	}
	members := map[string]bool{}
	hosts := map[int]*proxycore.Host{}
	host := func(i int) *proxycore.Host {
		if hosts[i] == nil {
			hosts[i] = c15Host(i)
		}
		return hosts[i]
	}
	var plans []*c15Plan
	newPlan := func() *c15Plan {
		snap := map[string]bool{}
		for k := range members {
			snap[k] = true
		}
		return &c15Plan{qp: lb.NewQueryPlan(), snapshot: snap, seen: map[string]bool{}}
	}
	booted := false
	for _, op := range c.Ops {
		switch op.Op {
		case "boot":
			if booted {
				continue
			}
			booted = true
			var hs []*proxycore.Host
			for _, i := range op.Set {
				if !members[host(i).Endpoint.Key()] {
					hs = append(hs, host(i))
					members[host(i).Endpoint.Key()] = true
				}
			}
			lb.OnEvent(&proxycore.BootstrapEvent{Hosts: hs})
		case "add":
			if members[host(op.Host).Endpoint.Key()] {
				continue // the cluster never announces a present host again
			}
			members[host(op.Host).Endpoint.Key()] = true
			// a fresh Host object, as the cluster creates one per refresh
			lb.OnEvent(&proxycore.AddEvent{Host: c15Host(op.Host)})
		case "remove":
			delete(members, host(op.Host).Endpoint.Key())
			lb.OnEvent(&proxycore.RemoveEvent{Host: c15Host(op.Host)})
		case "plan":
			plans = append(plans, newPlan())
		case "next":
			if len(plans) > 0 {
				if f := plans[op.Plan%len(plans)].next(); f != nil {
					return f
				}
			}
		case "drain":
			if len(plans) > 0 {
				if f := plans[op.Plan%len(plans)].drain(); f != nil {
					return f
				}
			}
		case "burst":
			// consecutive plans under stable membership: rotation and balance
			n := op.N
			first := map[string]int{}
			var prev *c15Plan
			for i := 0; i < n; i++ {
				p := newPlan()
				if f := p.drain(); f != nil {
					return f
				}
				if len(p.order) > 0 {
					first[p.order[0]]++
				}
				if prev != nil && !skipRotation && len(p.order) >= 2 && p.order[0] != prev.order[1] {
					sig := "rotation-not-consecutive"
					if wrap {
						sig = "rotation-repeats-at-counter-wrap"
					}
					return evid.Failf(sig, "plan %d of a burst starts at %s but the previous plan was %v (expected to start at %s)", i, p.order[0], prev.order, prev.order[1])
				}
				prev = p
			}
			if len(members) > 0 && n > 0 && !skipRotation {
				min, max := n, 0
				for k := range members {
					if first[k] < min {
						min = first[k]
					}
					if first[k] > max {
						max = first[k]
					}
				}
				if max-min > 1 {
					sig := "first-choice-imbalance"
					if wrap {
						sig = "rotation-repeats-at-counter-wrap"
					}
					return evid.Failf(sig, "over %d consecutive plans with members %v first choices were %v", n, keys(members), first)
				}
			}
		}
	}
	// every plan still held must remain safe to finish
	for _, p := range plans {
		if f := p.drain(); f != nil {
			return f
		}
	}
	return nil
}

func c15Gen(rt *rapid.T) c15Case {
	nh := rapid.IntRange(1, 5).Draw(rt, "hosts")
	boot := rapid.SliceOfNDistinct(rapid.IntRange(0, nh-1), 0, nh, func(i int) int { return i }).Draw(rt, "boot")
	ops := []c15Op{{Op: "boot", Set: boot}}
	n := rapid.IntRange(1, 60).Draw(rt, "len")
	for i := 0; i < n; i++ {
		switch rapid.SampledFrom([]string{"add", "remove", "plan", "plan", "next", "next", "next", "drain", "burst"}).Draw(rt, "op") {
		case "add":
			ops = append(ops, c15Op{Op: "add", Host: rapid.IntRange(0, nh-1).Draw(rt, "h")})
		case "remove":
			ops = append(ops, c15Op{Op: "remove", Host: rapid.IntRange(0, nh-1).Draw(rt, "h")})
		case "plan":
			ops = append(ops, c15Op{Op: "plan"})
		case "next":
			ops = append(ops, c15Op{Op: "next", Plan: rapid.IntRange(0, 30).Draw(rt, "p")})
		case "drain":
			ops = append(ops, c15Op{Op: "drain", Plan: rapid.IntRange(0, 30).Draw(rt, "p")})
		case "burst":
			ops = append(ops, c15Op{Op: "burst", N: rapid.IntRange(1, 17).Draw(rt, "n")})
		}
	}
	return c15Case{Ops: ops}
}

// classify a history for the evidence: non-trivial = a removal of a member other than the
// last-added one, a re-add, or a plan consumed after a membership change.
func c15Classify(c c15Case) (key string, labels []string) {
	members := map[int]bool{}
	removed := map[int]bool{}
	var sb strings.Builder
	plansOpen, nontrivial := 0, false
	changedSincePlan := false
	for _, op := range c.Ops {
		sb.WriteString(op.Op[:1])
		switch op.Op {
		case "boot":
			for _, i := range op.Set {
				members[i] = true
			}
			fmt.Fprintf(&sb, "%v", op.Set)
		case "add":
			if !members[op.Host] {
				if removed[op.Host] {
					nontrivial = true
					labels = append(labels, "re-add")
				}
				members[op.Host] = true
				changedSincePlan = plansOpen > 0
			}
			fmt.Fprintf(&sb, "%d", op.Host)
		case "remove":
			if members[op.Host] {
				delete(members, op.Host)
				removed[op.Host] = true
				nontrivial = true
				labels = append(labels, "remove-member")
				changedSincePlan = plansOpen > 0
			} else {
				labels = append(labels, "remove-absent")
			}
			fmt.Fprintf(&sb, "%d", op.Host)
		case "plan":
			plansOpen++
		case "next", "drain":
			if changedSincePlan && plansOpen > 0 {
				nontrivial = true
				labels = append(labels, "plan-consumed-after-change")
			}
			fmt.Fprintf(&sb, "%d", op.Plan)
		case "burst":
			fmt.Fprintf(&sb, "%d", op.N)
			labels = append(labels, fmt.Sprintf("burst-members=%d", len(members)))
		}
	}
	if nontrivial {
		key = sb.String()
	}
	return
}

// exhaustive enumeration of event histories over nh hosts up to length maxLen; after
// every prefix a burst of plans is created and drained, and one plan is held across all
// later events and advanced by one step after each.
func c15Enumerate(nh, maxLen int, shard, shards int, yield func(c15Case) bool) {
	type ev struct {
		op string
		h  int
	}
	var evs []ev
	for h := 0; h < nh; h++ {
		evs = append(evs, ev{"add", h}, ev{"remove", h})
	}
	idx := 0
	for mask := 0; mask < 1<<nh; mask++ {
		var boot []int
		for h := 0; h < nh; h++ {
			if mask&(1<<h) != 0 {
				boot = append(boot, h)
			}
		}
		var rec func(prefix []ev, mem int) bool
		rec = func(prefix []ev, mem int) bool {
			idx++
			if idx%shards == shard {
				ops := []c15Op{{Op: "boot", Set: boot}, {Op: "plan"}, {Op: "burst", N: 2*nh + 1}}
				for i, e := range prefix {
					ops = append(ops, c15Op{Op: e.op, Host: e.h}, c15Op{Op: "plan"})
					for p := 0; p <= i+1; p++ {
						ops = append(ops, c15Op{Op: "next", Plan: p})
					}
					ops = append(ops, c15Op{Op: "burst", N: 2*nh + 1})
				}
				if !yield(c15Case{Ops: ops}) {
					return false
				}
			}
			if len(prefix) == maxLen {
				return true
			}
			for _, e := range evs {
				present := mem&(1<<e.h) != 0
				if e.op == "add" && present {
					continue // outside the documented input domain
				}
				nm := mem
				if e.op == "add" {
					nm |= 1 << e.h
				} else {
					nm &^= 1 << e.h
				}
				if !rec(append(prefix[:len(prefix):len(prefix)], e), nm) {
					return false
				}
			}
			return true
		}
		if !rec(nil, mask) {
			return
		}
	}
}

// concurrent variant: plans created and consumed by several goroutines while one
// goroutine applies membership events; then a stable phase checks exact balance.
type c15Conc struct {
	Hosts   int   `json:"hosts"`
	Workers int   `json:"workers"`
	Events  []int `json:"events"` // host toggles applied by the mutator
	PerW    int   `json:"plans_per_worker"`
}

func c15ConcCheck(c c15Conc) *evid.Fail {
	lb := proxycore.NewRoundRobinLoadBalancer()
	universe := map[string]bool{}
	var hs []*proxycore.Host
	for i := 0; i < c.Hosts; i++ {
		hs = append(hs, c15Host(i))
		universe[hs[i].Endpoint.Key()] = true
	}
	lb.OnEvent(&proxycore.BootstrapEvent{Hosts: append([]*proxycore.Host(nil), hs...)})
	present := make([]bool, c.Hosts)
	for i := range present {
		present[i] = true
	}
	var wg sync.WaitGroup
	fails := make(chan *evid.Fail, c.Workers+1)
	stop := make(chan struct{})
	for w := 0; w < c.Workers; w++ {
		wg.Add(1)
		go func() {
			defer wg.Done()
			defer func() {
				if p := recover(); p != nil {
					fails <- evid.Failf("plan-panic-concurrent", "panic consuming a plan during membership changes: %v", p)
				}
			}()
			for i := 0; i < c.PerW; i++ {
				select {
				case <-stop:
					return
				default:
				}
				qp := lb.NewQueryPlan()
				seen := map[string]bool{}
				for j := 0; j < c.Hosts+2; j++ {
					h := qp.Next()
					if h == nil {
						break
					}
					if !universe[h.Endpoint.Key()] {
						fails <- evid.Failf("plan-nonmember", "concurrent plan yielded unknown host %s", h.Endpoint.Key())
						return
					}
					if seen[h.Endpoint.Key()] {
						fails <- evid.Failf("plan-duplicate-concurrent", "a plan yielded %s twice while membership changed concurrently", h.Endpoint.Key())
						return
					}
					seen[h.Endpoint.Key()] = true
				}
			}
		}()
	}
	for _, e := range c.Events {
		i := e % c.Hosts
		if present[i] {
			lb.OnEvent(&proxycore.RemoveEvent{Host: c15Host(i)})
		} else {
			lb.OnEvent(&proxycore.AddEvent{Host: c15Host(i)})
		}
		present[i] = !present[i]
	}
	wg.Wait()
	close(stop)
	select {
	case f := <-fails:
		return f
	default:
	}
	// stable phase: n*|S| plans from several goroutines -> exactly n first choices each
	live := 0
	for _, p := range present {
		if p {
			live++
		}
	}
	if live == 0 {
		return nil
	}
	n := 500 // long enough for the workers to really overlap (a plan costs well under a microsecond)
	total := n * live * c.Workers
	firsts := make([]map[string]int, c.Workers)
	start := make(chan struct{})
	for w := 0; w < c.Workers; w++ {
		firsts[w] = map[string]int{}
		wg.Add(1)
		go func(w int) {
			defer wg.Done()
			<-start
			for i := 0; i < total/c.Workers; i++ {
				if h := lb.NewQueryPlan().Next(); h != nil {
					firsts[w][h.Endpoint.Key()]++
				}
			}
		}(w)
	}
	close(start)
	wg.Wait()
	sum := map[string]int{}
	for _, m := range firsts {
		for k, v := range m {
			sum[k] += v
		}
	}
	for i, p := range present {
		k := c15Host(i).Endpoint.Key()
		if p && sum[k] != total/live {
			return evid.Failf("concurrent-first-choice-imbalance", "%d plans over %d live hosts from %d goroutines: first choices %v (want %d each)", total, live, c.Workers, sum, total/live)
		}
		if !p && sum[k] != 0 {
			return evid.Failf("plan-removed-host", "removed host %s was first choice %d times", k, sum[k])
		}
	}
	return nil
}

func TestC15(t *testing.T) {
	rec := evid.New("C15", "exploration",
		"histories of bootstrap/add/remove events over <=5 hosts interleaved with plan creation/consumption; "+
			"exhaustive event histories up to a bounded length (a burst of 2n+1 plans after every prefix, one plan held across later events) plus rapid histories up to length 60 and a concurrent variant; "+
			"non-trivial = history with a removal of a member, a re-add, or a plan consumed after a membership change; distinct by canonical op string")
	defer finish(t, rec)
	rec.Assume("AddEvent for a host that is already a member is outside the input domain (Cluster.mergeHosts diffs against the current set)",
		"model: membership is a set; rotation order is read off the previous plan's own order")
	shard, shards := evid.Shard()

	// (1) exhaustive
	nh, maxLen := 4, 4
	if evid.Thorough() {
		nh, maxLen = 5, 5
	}
	count := 0
	runEnum(t, rec, "enum", func(yield func(c15Case) bool) {
		c15Enumerate(nh, maxLen, shard, shards, func(c c15Case) bool {
			count++
			key, labels := c15Classify(c)
			rec.Case(key, labels...)
			if count%5000 == 1 {
				rec.Sample(c)
			}
			return yield(c)
		})
	}, c15Check)
	rec.Extra("exhaustive_histories", int64(count))
	rec.Extra("exhaustive_hosts", nh)
	rec.Extra("exhaustive_max_len", maxLen)

	// (2) random long histories
	runProp(t, rec, "history", perShard(evid.Pick(6000, 800000)), func(rt *rapid.T) c15Case {
		c := c15Gen(rt)
		c.SNI = rapid.IntRange(0, 3).Draw(rt, "sni") == 0
		key, labels := c15Classify(c)
		if c.SNI {
			labels = append(labels, "endpoints:shared-address-distinct-keys")
			if key != "" {
				key = "sni:" + key
			}
		}
		rec.Case(key, labels...)
		rec.Sample(c)
		return c
	}, c15Check)

	// (3) counter wrap (hook): the 32-bit plan counter placed just below the boundary
	runProp(t, rec, "wrap", perShard(evid.Pick(200, 20000)), func(rt *rapid.T) c15Case {
		nhh := rapid.SampledFrom([]int{2, 3, 4, 5}).Draw(rt, "hosts")
		var boot []int
		for i := 0; i < nhh; i++ {
			boot = append(boot, i)
		}
		ctr := rapid.SampledFrom([]uint64{0xFFFFFFFF, 0x7FFFFFFF, ^uint64(0), 0x7FFFFFFFFFFFFFFF}).Draw(rt, "boundary") - uint64(rapid.IntRange(0, 12).Draw(rt, "below"))
		c := c15Case{Counter: &ctr, Ops: []c15Op{{Op: "boot", Set: boot}, {Op: "burst", N: rapid.IntRange(2, 30).Draw(rt, "n")}}}
		rec.Case(fmt.Sprintf("wrap:%d:%d:%d", nhh, ctr, c.Ops[1].N), "counter-wrap")
		return c
	}, c15Check)

	// (4) concurrent
	runProp(t, rec, "concurrent", perShard(evid.Pick(150, 20000)), func(rt *rapid.T) c15Conc {
		c := c15Conc{Hosts: rapid.IntRange(2, 5).Draw(rt, "hosts"), Workers: rapid.IntRange(2, 8).Draw(rt, "workers"),
			Events: rapid.SliceOfN(rapid.IntRange(0, 4), 1, 40).Draw(rt, "events"), PerW: rapid.IntRange(50, 400).Draw(rt, "perw")}
		rec.Case("conc:"+js(c), "concurrent")
		return c
	}, c15ConcCheck)
}
