// Package protogen generates native-protocol request messages over the whole option space
// of the reference library (github.com/datastax/go-cassandra-native-protocol) for a given
// protocol version, by construction (only fields the version supports are drawn).
package protogen

import (
	"bytes"
	"fmt"

	"github.com/datastax/go-cassandra-native-protocol/frame"
	"github.com/datastax/go-cassandra-native-protocol/message"
	"github.com/datastax/go-cassandra-native-protocol/primitive"
	"pgregory.net/rapid"
)

var Versions = []primitive.ProtocolVersion{primitive.ProtocolVersion3, primitive.ProtocolVersion4, primitive.ProtocolVersion5,
	primitive.ProtocolVersionDse1, primitive.ProtocolVersionDse2}

var Consistencies = []primitive.ConsistencyLevel{
	primitive.ConsistencyLevelAny, primitive.ConsistencyLevelOne, primitive.ConsistencyLevelTwo, primitive.ConsistencyLevelThree,
	primitive.ConsistencyLevelQuorum, primitive.ConsistencyLevelAll, primitive.ConsistencyLevelLocalQuorum,
	primitive.ConsistencyLevelEachQuorum, primitive.ConsistencyLevelSerial, primitive.ConsistencyLevelLocalSerial,
	primitive.ConsistencyLevelLocalOne}

var Ref = frame.NewRawCodec()

func Version(t *rapid.T) primitive.ProtocolVersion {
	return Versions[rapid.IntRange(0, len(Versions)-1).Draw(t, "version")]
}

func Consistency(t *rapid.T, label string) primitive.ConsistencyLevel {
	return Consistencies[rapid.IntRange(0, len(Consistencies)-1).Draw(t, label)]
}

// SizeMix draws a byte length from a mixture: mostly small, sometimes crossing the proxy's
// 16 KiB coalescing buffer, rarely large (up to maxLarge).
func SizeMix(t *rapid.T, label string, maxLarge int) int {
	switch c := rapid.IntRange(0, 99).Draw(t, label+"class"); {
	case c < 70:
		return rapid.IntRange(0, 64).Draw(t, label)
	case c < 90:
		return rapid.IntRange(65, 4096).Draw(t, label)
	case c < 97:
		return rapid.IntRange(4097, 70000).Draw(t, label)
	default:
		if maxLarge < 70001 {
			maxLarge = 70001
		}
		return rapid.IntRange(70001, maxLarge).Draw(t, label)
	}
}

func Bytes(t *rapid.T, label string, n int) []byte {
	if n <= 64 {
		return rapid.SliceOfN(rapid.Byte(), n, n).Draw(t, label)
	}
	// large payloads: a drawn short pattern repeated (keeps shrinking and generation cheap)
	pat := rapid.SliceOfN(rapid.Byte(), 1, 16).Draw(t, label+"pat")
	b := make([]byte, n)
	for i := range b {
		b[i] = pat[i%len(pat)] + byte(i/len(pat))
	}
	return b
}

func Value(t *rapid.T, v primitive.ProtocolVersion, maxLarge int) *primitive.Value {
	switch c := rapid.IntRange(0, 9).Draw(t, "valkind"); {
	case c == 0:
		return primitive.NewNullValue()
	case c == 1 && v.SupportsUnsetValues():
		return primitive.NewUnsetValue()
	case c == 2:
		return primitive.NewValue([]byte{})
	default:
		return primitive.NewValue(Bytes(t, "val", SizeMix(t, "vallen", maxLarge)))
	}
}

func Values(t *rapid.T, v primitive.ProtocolVersion, maxLarge int) []*primitive.Value {
	n := rapid.IntRange(0, 5).Draw(t, "nvalues")
	out := make([]*primitive.Value, n)
	for i := range out {
		out[i] = Value(t, v, maxLarge)
	}
	return out
}

var names = []string{"a", "b", "k", "value", "Mixed", "with space", "", "ünï", "a_very_long_bind_marker_name_0123456789"}

// Options draws query options for QUERY/EXECUTE in version v.
func Options(t *rapid.T, v primitive.ProtocolVersion, cl primitive.ConsistencyLevel, maxLarge int) *message.QueryOptions {
	o := &message.QueryOptions{Consistency: cl}
	if rapid.Bool().Draw(t, "hasvalues") {
		if rapid.Bool().Draw(t, "named") && v.SupportsQueryFlag(primitive.QueryFlagValueNames) {
			n := rapid.IntRange(1, 4).Draw(t, "nnamed")
			o.NamedValues = map[string]*primitive.Value{}
			for i := 0; i < n; i++ {
				o.NamedValues[names[rapid.IntRange(0, len(names)-1).Draw(t, "name")]] = Value(t, v, maxLarge)
			}
		} else {
			o.PositionalValues = Values(t, v, maxLarge)
		}
	}
	o.SkipMetadata = rapid.Bool().Draw(t, "skipmeta")
	if rapid.Bool().Draw(t, "haspagesize") {
		o.PageSize = int32(rapid.IntRange(1, 1<<30).Draw(t, "pagesize"))
		if v.SupportsQueryFlag(primitive.QueryFlagDsePageSizeBytes) {
			o.PageSizeInBytes = rapid.Bool().Draw(t, "pagesizebytes")
		}
	}
	if rapid.Bool().Draw(t, "haspagingstate") {
		o.PagingState = Bytes(t, "pagingstate", rapid.IntRange(1, 300).Draw(t, "pslen"))
	}
	if rapid.Bool().Draw(t, "hasserial") {
		sc := []primitive.ConsistencyLevel{primitive.ConsistencyLevelSerial, primitive.ConsistencyLevelLocalSerial}[rapid.IntRange(0, 1).Draw(t, "serial")]
		o.SerialConsistency = &sc
	}
	if rapid.Bool().Draw(t, "hasts") && v.SupportsQueryFlag(primitive.QueryFlagDefaultTimestamp) {
		ts := rapid.Int64().Draw(t, "ts")
		o.DefaultTimestamp = &ts
	}
	if rapid.Bool().Draw(t, "hasks") && v.SupportsQueryFlag(primitive.QueryFlagWithKeyspace) {
		o.Keyspace = []string{"ks1", "system", "Ks", "k"}[rapid.IntRange(0, 3).Draw(t, "optks")]
	}
	if rapid.Bool().Draw(t, "hasnow") && v.SupportsQueryFlag(primitive.QueryFlagNowInSeconds) {
		n := rapid.Int32().Draw(t, "now")
		o.NowInSeconds = &n
	}
	if rapid.Bool().Draw(t, "hascont") && v.SupportsQueryFlag(primitive.QueryFlagDseWithContinuousPagingOptions) {
		o.ContinuousPagingOptions = &message.ContinuousPagingOptions{
			MaxPages:       int32(rapid.IntRange(0, 1000).Draw(t, "maxpages")),
			PagesPerSecond: int32(rapid.IntRange(0, 1000).Draw(t, "pps")),
		}
		if v >= primitive.ProtocolVersionDse2 {
			o.ContinuousPagingOptions.NextPages = int32(rapid.IntRange(0, 1000).Draw(t, "nextpages"))
		}
	}
	return o
}

func Query(t *rapid.T, v primitive.ProtocolVersion, text string, cl primitive.ConsistencyLevel, maxLarge int) *message.Query {
	return &message.Query{Query: text, Options: Options(t, v, cl, maxLarge)}
}

func Execute(t *rapid.T, v primitive.ProtocolVersion, id []byte, cl primitive.ConsistencyLevel, maxLarge int) *message.Execute {
	e := &message.Execute{QueryId: id, Options: Options(t, v, cl, maxLarge)}
	if v.SupportsResultMetadataId() {
		e.ResultMetadataId = Bytes(t, "rmid", rapid.IntRange(1, 32).Draw(t, "rmidlen"))
	}
	return e
}

// BatchChildSpec tells Batch what each child is: a statement text or a prepared id.
type BatchChildSpec struct {
	Query string
	Id    []byte
}

func Batch(t *rapid.T, v primitive.ProtocolVersion, children []BatchChildSpec, cl primitive.ConsistencyLevel, maxLarge int) *message.Batch {
	b := &message.Batch{Consistency: cl}
	b.Type = []primitive.BatchType{primitive.BatchTypeLogged, primitive.BatchTypeUnlogged, primitive.BatchTypeCounter}[rapid.IntRange(0, 2).Draw(t, "batchtype")]
	for _, c := range children {
		ch := &message.BatchChild{Query: c.Query, Id: c.Id}
		if rapid.Bool().Draw(t, "childvalues") {
			ch.Values = Values(t, v, maxLarge)
		}
		b.Children = append(b.Children, ch)
	}
	if rapid.Bool().Draw(t, "bserial") {
		sc := []primitive.ConsistencyLevel{primitive.ConsistencyLevelSerial, primitive.ConsistencyLevelLocalSerial}[rapid.IntRange(0, 1).Draw(t, "serial")]
		b.SerialConsistency = &sc
	}
	if rapid.Bool().Draw(t, "bts") {
		ts := rapid.Int64().Draw(t, "ts")
		b.DefaultTimestamp = &ts
	}
	if rapid.Bool().Draw(t, "bks") && v.SupportsQueryFlag(primitive.QueryFlagWithKeyspace) {
		b.Keyspace = []string{"ks1", "Ks"}[rapid.IntRange(0, 1).Draw(t, "bksn")]
	}
	if rapid.Bool().Draw(t, "bnow") && v.SupportsQueryFlag(primitive.QueryFlagNowInSeconds) {
		n := rapid.Int32().Draw(t, "now")
		b.NowInSeconds = &n
	}
	return b
}

func CustomPayload(t *rapid.T, maxEntries int) map[string][]byte {
	n := rapid.IntRange(1, maxEntries).Draw(t, "npayload")
	m := map[string][]byte{}
	keys := []string{"k1", "trace-ctx", "", "x-long-key-0123456789", "graph-language"}
	for i := 0; i < n; i++ {
		m[keys[rapid.IntRange(0, len(keys)-1).Draw(t, "pkey")]] = Bytes(t, "pval", rapid.IntRange(0, 40).Draw(t, "pvallen"))
	}
	return m
}

// EncodeMessage returns the reference encoding of msg alone (no custom payload, no flags).
func EncodeMessage(v primitive.ProtocolVersion, msg message.Message) ([]byte, error) {
	hdr := &frame.Header{Version: v, OpCode: msg.GetOpCode()}
	var buf bytes.Buffer
	if err := Ref.EncodeBody(hdr, &frame.Body{Message: msg}, &buf); err != nil {
		return nil, err
	}
	return buf.Bytes(), nil
}

// EncodeBody returns the reference encoding of an uncompressed request body: custom
// payload (if any) followed by the message. flags receives the matching header flags.
func EncodeBody(v primitive.ProtocolVersion, msg message.Message, payload map[string][]byte, tracing bool) (body []byte, flags primitive.HeaderFlag, err error) {
	hdr := &frame.Header{Version: v, OpCode: msg.GetOpCode()}
	b := &frame.Body{Message: msg}
	if payload != nil {
		hdr.Flags = hdr.Flags.Add(primitive.HeaderFlagCustomPayload)
		b.CustomPayload = payload
	}
	var buf bytes.Buffer
	if err = Ref.EncodeBody(hdr, b, &buf); err != nil {
		return nil, 0, err
	}
	flags = hdr.Flags
	if tracing {
		flags = flags.Add(primitive.HeaderFlagTracing)
	}
	return buf.Bytes(), flags, nil
}

// FrameBytes assembles a frame from a header and the body bytes actually sent (the
// length field is the real body length; see DESIGN.md §1.2).
func FrameBytes(v primitive.ProtocolVersion, flags primitive.HeaderFlag, stream int16, op primitive.OpCode, body []byte) []byte {
	out := make([]byte, 9+len(body))
	out[0] = byte(v)
	out[1] = byte(flags)
	out[2] = byte(uint16(stream) >> 8)
	out[3] = byte(uint16(stream))
	out[4] = byte(op)
	l := uint32(len(body))
	out[5], out[6], out[7], out[8] = byte(l>>24), byte(l>>16), byte(l>>8), byte(l)
	copy(out[9:], body)
	return out
}

func VersionName(v primitive.ProtocolVersion) string {
	switch v {
	case primitive.ProtocolVersionDse1:
		return "DSEv1"
	case primitive.ProtocolVersionDse2:
		return "DSEv2"
	}
	return fmt.Sprintf("v%d", int(v))
}
