package checks

import (
	"strings"
	"testing"

	"pgregory.net/rapid"

	"verif/harness/evid"
	"verif/harness/fakecass"
)

// ---- C04: non-idempotent requests are never re-executed once they may have been applied ----

// statements that are not DML at all, or do not parse: "not positively idempotent"
func genOddStmt(rt *rapid.T, token string) stmtSpec {
	// Only statements whose first keyword is not a DML keyword: they do execute (DDL, TRUNCATE, GRANT) or are
	// garbage, and the classifier reports anything that is not SELECT/INSERT/UPDATE/DELETE/BATCH as not
	// idempotent. Syntactically broken DML is deliberately absent: the classifier is not a syntax validator
	// (it may leniently accept invalid DML, which no backend would apply, so retrying it is harmless).
	texts := []string{
		"CREATE TABLE ks1." + token + " (k int PRIMARY KEY)",
		"TRUNCATE ks1.t /* " + token + " */",
		"DROP TABLE ks1." + token,
		"ALTER TABLE ks1.t ADD " + token + " int",
		"GRANT SELECT ON ks1." + token + " TO bob",
		"create index on ks1.t (" + token + ")",
		"\x00\xff " + token,
		"CALL something('" + token + "')",
	}
	return stmtSpec{Text: texts[rapid.IntRange(0, len(texts)-1).Draw(rt, "odd")], Idem: false, Planted: []string{"not-dml"}}
}

func c04Script(rt *rapid.T) []fakecass.Outcome {
	// start with zero or more "safe" outcomes, then a non-safe one, then more entries that must never be consumed
	var out []fakecass.Outcome
	nsafe := rapid.IntRange(0, 2).Draw(rt, "nsafe")
	for i := 0; i < nsafe; i++ {
		switch rapid.IntRange(0, 3).Draw(rt, "safekind") {
		case 0:
			out = append(out, fakecass.Outcome{Kind: "unavailable"})
		case 1:
			out = append(out, fakecass.Outcome{Kind: "bootstrapping"})
		case 2:
			out = append(out, fakecass.Outcome{Kind: "read_timeout", Received: 2, BlockFor: 2, DataPresent: false})
		case 3:
			out = append(out, fakecass.Outcome{Kind: "read_timeout", Received: int32(rapid.IntRange(0, 2).Draw(rt, "rcv")), BlockFor: 2, DataPresent: rapid.Bool().Draw(rt, "dp")})
		}
	}
	switch rapid.IntRange(0, 11).Draw(rt, "unsafekind") {
	case 0, 1:
		out = append(out, fakecass.Outcome{Kind: "write_timeout", WriteType: writeTypes[rapid.IntRange(0, len(writeTypes)-1).Draw(rt, "wt")]})
	case 2:
		out = append(out, fakecass.Outcome{Kind: "server_error"})
	case 3:
		out = append(out, fakecass.Outcome{Kind: "overloaded"})
	case 4:
		out = append(out, fakecass.Outcome{Kind: "truncate"})
	case 5:
		out = append(out, fakecass.Outcome{Kind: rapid.SampledFrom([]string{"read_failure", "write_failure"}).Draw(rt, "failure")})
	case 6, 7:
		out = append(out, fakecass.Outcome{Kind: "drop"})
	case 8:
		out = append(out, fakecass.Outcome{Kind: "silence"})
	case 9:
		out = append(out, fakecass.Outcome{Kind: "hold"})
	case 10:
		out = append(out, fakecass.Outcome{Kind: rapid.SampledFrom([]string{"invalid", "syntax", "unauthorized", "already_exists", "function_failure", "config_error"}).Draw(rt, "other")})
	case 11:
		out = append(out, fakecass.Outcome{Kind: "ok"})
	}
	ntail := rapid.IntRange(0, 2).Draw(rt, "ntail")
	for i := 0; i < ntail; i++ {
		out = append(out, fakecass.Outcome{Kind: "ok"})
	}
	return out
}

func c04Gen(rt *rapid.T) stormCase {
	c := stormCase{Hosts: rapid.IntRange(1, 4).Draw(rt, "hosts"), Conns: rapid.IntRange(1, 2).Draw(rt, "conns"), IdempotentGraph: rapid.Bool().Draw(rt, "idemgraph")}
	nc := rapid.IntRange(1, 3).Draw(rt, "nclients")
	for i := 0; i < nc; i++ {
		sc := stormClient{Version: 4, Comp: rapid.SampledFrom([]string{"", "", "lz4"}).Draw(rt, "ccomp")}
		nq := rapid.IntRange(1, 10).Draw(rt, "nreq")
		for j := 0; j < nq; j++ {
			idem := rapid.IntRange(0, 4).Draw(rt, "idem") == 0 // mostly non-idempotent
			q := genReq(rt, idem, true, c.IdempotentGraph)
			if !idem && q.Kind == "query" && !q.Graph && rapid.IntRange(0, 3).Draw(rt, "oddstmt") == 0 {
				q.Stmt = genOddStmt(rt, q.Token)
			}
			if q.Kind == "execute" && !q.UnknownID && !idem && rapid.IntRange(0, 3).Draw(rt, "decoy") == 0 {
				q.Decoy = true
			}
			q.Script = c04Script(rt)
			sc.Reqs = append(sc.Reqs, stormReq{reqSpec: q})
		}
		c.Clients = append(c.Clients, sc)
	}
	c.Steps = genStormSteps(rt, c.Hosts, 4)
	c.Warn = rapid.IntRange(0, 3).Draw(rt, "backendwarns") == 0
	stormFastIdle(rt, &c)
	return c
}

func TestC04(t *testing.T) {
	rec := evid.New("C04", "fault_enumeration",
		"requests that are not positively idempotent by the generator's ground truth (planted non-idempotent construct, non-DML or garbage text, EXECUTE/BATCH child of non-idempotent or never-prepared id, graph payload without the option) pipelined by 1..3 clients against 1..4 hosts x 1..2 connections; per-attempt scripts = some safe outcomes, then one outcome after which the request may have been applied (write timeout, server/overloaded/truncate, read/write failure, connection loss, silence, hold), then entries that must never be consumed; plus a drop/release schedule; "+
			"oracle: in the backend attempt log every attempt after the first follows an attempt that ended in unavailable/bootstrapping/read-timeout/unprepared, and the client's reply is the last attempt's error (or an error frame for connection loss); "+
			"non-trivial = non-idempotent request whose script has a non-safe outcome before its end; distinct by (shape, kinds, scripts, schedule)")
	defer finish(t, rec)
	rec.SetJournalAll(true)
	rec.Assume("ground truth of idempotency from cqlgen's derivation; prepared ids are what the proxy itself returned",
		"a request is 'received' when the fake backend has read the frame; connection loss is only scripted after that point")
	runProp(t, rec, "storm", perShard(evid.Pick(2000, 150000)), func(rt *rapid.T) stormCase {
		c := c04Gen(rt)
		labels, nreq, _, _, _ := stormClassify(&c)
		nontrivial := false
		for _, sc := range c.Clients {
			for _, q := range sc.Reqs {
				if q.positivelyIdempotent(c.IdempotentGraph) {
					labels = append(labels, "class:idempotent")
					continue
				}
				kind := "class:non-idempotent:" + q.Kind
				if q.Graph {
					kind += "+graph"
				}
				if q.UnknownID {
					kind += "+unknown-id"
				}
				if q.Decoy {
					kind += "+id-redefined"
				}
				if len(q.Stmt.Planted) > 0 && strings.HasPrefix(q.Stmt.Planted[0], "not-dml") {
					kind += "+not-dml"
				}
				labels = append(labels, kind)
				for i, o := range q.Script {
					if !safeOutcomes[o.Kind] && o.Kind != "ok" && i < len(q.Script)-1 {
						nontrivial = true
						labels = append(labels, "unsafe-then-more:"+o.Kind)
					}
				}
			}
		}
		key := ""
		if nontrivial {
			key = stormKey(&c)
		}
		rec.Case(key, labels...)
		rec.ExtraAdd("requests_sent", int64(nreq))
		rec.Sample(stormSample(c))
		return c
	}, func(c stormCase) *evid.Fail {
		res, f := runStorm(&c, rec)
		if f != nil {
			if f.Sig == "harness-stall" {
				inconclusive(rec, "%s", f.Msg)
			}
			return f
		}
		return oracleNoReexecution(&c, res)
	})
}
