package checks

import (
	"encoding/hex"
	"fmt"
	"strings"
	"sync/atomic"
	"testing"
	"time"

	"github.com/datastax/go-cassandra-native-protocol/message"
	"github.com/datastax/go-cassandra-native-protocol/primitive"
	"pgregory.net/rapid"

	"verif/harness/evid"
	"verif/harness/fakecass"
	"verif/harness/protogen"
	"verif/harness/rawcli"
	"verif/harness/wire"
)

// ---- C08: prepared statements execute on every backend host without client involvement ----

type c08Action struct {
	Op     string             `json:"op"` // prepare | execute | batch | forget | add_host | restart_host | burst
	Client int                `json:"client"`
	Stmt   int                `json:"stmt"`            // index into the statement pool of the client's class
	Stmt2  int                `json:"stmt2,omitempty"` // batch: second prepared child
	Host   int                `json:"host,omitempty"`
	All    bool               `json:"all,omitempty"`       // forget everything on that host
	Fail   []fakecass.Outcome `json:"reprepare,omitempty"` // outcomes of the next re-preparations of Stmt
	N      int                `json:"n,omitempty"`         // burst size
	Traced bool               `json:"traced,omitempty"`    // execute/batch: the request asks for tracing
}

type c08Case struct {
	Hosts   int         `json:"hosts"`
	Conns   int         `json:"conns"`
	Clients []c07Client `json:"clients"`
	Actions []c08Action `json:"actions"`
	Warn    bool        `json:"warn_on_unprepared,omitempty"` // the backend attaches a warning to its UNPREPARED answers
	Shared  bool        `json:"shared_texts,omitempty"`       // clients of different version/compression prepare the same text (known finding territory)
}

type c08Stmt struct {
	text string
	idem bool
}

// The class tag and the PREPARE token ride in a string literal (the proxy's lexer has no comments).
func c08Pool(class string) []c08Stmt {
	return []c08Stmt{
		{"SELECT * FROM ks1.t WHERE k = ? AND tag = '@ " + class + "'", true},
		{"INSERT INTO ks1.t (k, v, tag) VALUES (?, 1, '@ " + class + "')", true},
		{"UPDATE ks1.t SET c = c + 1 WHERE k = ? AND tag = '@ " + class + "'", false},
		{"DELETE FROM ks1.t WHERE k = ? AND tag = '@ " + class + "' IF EXISTS", false},
		{"UPDATE ks1.t SET v = ? WHERE k = 1 AND tag = '@ " + class + "'", true},
	}
}

func c08Check(c c08Case) *evid.Fail {
	e, err := startEnv(envOpts{Hosts: c.Hosts, NumConns: c.Conns, Version: primitive.ProtocolVersion4, MaxVersion: primitive.ProtocolVersionDse2, Keyspaces: []string{"ks1"}})
	if err != nil {
		return evid.Failf("harness-env", "%v", err)
	}
	defer e.Close()
	e.Cluster.WarnOnUnprepared = c.Warn
	var rs []*runner
	classes := make([]string, len(c.Clients))
	for i, cc := range c.Clients {
		r, err := newRunner(e, primitive.ProtocolVersion(cc.Version), cc.Comp)
		if err != nil {
			return evid.Failf("harness-client", "%v", err)
		}
		rs = append(rs, r)
		// the proxy creates the backend session of a (version, compression) class on the class's first request: make
		// it exist now, so that connection counts taken before an action describe the connections the action can use
		ws := r.nextStream()
		if err := r.c.SendMsg(r.v, ws, &message.Query{Query: "SELECT * FROM ks1.warmup WHERE k = '" + nextToken() + "'", Options: &message.QueryOptions{Consistency: primitive.ConsistencyLevelOne}}, false); err != nil {
			return evid.Failf("harness-send", "%v", err)
		}
		if r.c.WaitStream(ws, 0, 1, posWait) == nil {
			return evid.Failf("no-reply", "client %d: the warm-up query was not answered", i)
		}
		classes[i] = fmt.Sprintf("%d-%s", cc.Version, cc.Comp)
		if c.Shared {
			classes[i] = "shared"
		}
	}
	known := map[string][]byte{}               // text -> id, for texts successfully PREPAREd through the proxy
	preparedBy := map[string]map[string]bool{} // text -> client classes (version/compression) that prepared it
	prepTok := map[string]string{}             // text -> the token its PREPARE carries
	hostClass := map[int]string{}              // joined-later / restarted
	tokText := func(text string) string {
		if t, ok := prepTok[text]; ok {
			return t
		}
		t := prepTokenOf(nextToken())
		prepTok[text] = t
		return t
	}
	withTok := func(text string) string { return strings.Replace(text, "'@ ", "'"+tokText(text)+" ", 1) }
	prepare := func(ci int, st c08Stmt) *evid.Fail {
		text := withTok(st.text)
		id, err := rs[ci].prepare(text)
		if err != nil {
			return evid.Failf("prepare-failed", "client %d: PREPARE %q: %v", ci, text, err)
		}
		known[text] = id
		if preparedBy[text] == nil {
			preparedBy[text] = map[string]bool{}
		}
		preparedBy[text][fmt.Sprintf("%d-%s", c.Clients[ci].Version, c.Clients[ci].Comp)] = true
		return nil
	}
	upHosts := func() int {
		n := 0
		for i := 0; i < e.Cluster.NumHosts(); i++ {
			if e.Cluster.Host(i).Up() {
				n++
			}
		}
		return n
	}
	// judge classifies the reply to an EXECUTE/BATCH of known ids
	judge := func(ci int, what string, texts []string, idem bool, failures []fakecass.Outcome, ri *replyInfo, tok string) *evid.Fail {
		comp := c.Clients[ci].Comp
		if comp == "" {
			comp = "plain"
		}
		crossSession := false
		mine := fmt.Sprintf("%d-%s", c.Clients[ci].Version, c.Clients[ci].Comp)
		for _, t := range texts {
			for cls := range preparedBy[t] {
				if cls != mine {
					crossSession = true // the cached PREPARE frame may come from a session of another version/compression
				}
			}
		}
		as := e.Cluster.Attempts(tok)
		hc := "initial-host"
		for _, a := range as {
			if cl, ok := hostClass[a.Host]; ok {
				hc = cl
			}
		}
		if ri.IsError && ri.Code == primitive.ErrorCodeUnprepared {
			if crossSession {
				return evid.Failf("cross-session-reprepare", "%s: UNPREPARED reached the client; the statement was prepared by clients of different version/compression %v and the cached PREPARE frame of one was replayed on the other's session", what, preparedBy[texts[0]])
			}
			return evid.Failf("unprepared-leaked:"+hc+"/"+comp, "%s: the client received UNPREPARED for a statement in the proxy's prepared cache (attempts [%s])", what, traceString(as))
		}
		hasDrop := false
		for _, f := range failures {
			if f.Kind == "drop" {
				hasDrop = true
			}
		}
		mustSucceed := len(failures) < upHosts() && (idem || !hasDrop)
		if ri.Echo != nil {
			if ri.Echo.Tok != tok {
				return evid.Failf("wrong-answer", "%s: received the answer to token %s", what, ri.Echo.Tok)
			}
			return nil
		}
		if mustSucceed {
			if crossSession {
				return evid.Failf("cross-session-reprepare", "%s: failed with %v although %d hosts are up and only %d re-preparations were scripted to fail; the statement was prepared by clients of different version/compression %v", what, ri, upHosts(), len(failures), preparedBy[texts[0]])
			}
			return evid.Failf("execute-failed:"+hc+"/"+comp, "%s: answered with %v although %d hosts are up and only %d re-preparations were scripted to fail (attempts [%s])", what, ri, upHosts(), len(failures), traceString(as))
		}
		if !ri.IsError {
			return evid.Failf("execute-reply", "%s: answered with %v", what, ri)
		}
		return nil
	}
	exec := func(ci int, a c08Action, batch bool) (func() *evid.Fail, *evid.Fail) {
		pool := c08Pool(classes[ci])
		st := pool[a.Stmt%len(pool)]
		text := withTok(st.text)
		if _, ok := known[text]; !ok {
			if f := prepare(ci, st); f != nil {
				return nil, f
			}
		}
		texts := []string{text}
		idem := st.idem
		tok := nextToken()
		q := reqSpec{Kind: "execute", Token: tok, Stmt: stmtSpec{Text: text, Idem: st.idem}}
		r := rs[ci]
		var msg message.Message
		vals := []*primitive.Value{primitive.NewValue([]byte(tok))}
		if batch {
			st2 := pool[a.Stmt2%len(pool)]
			text2 := withTok(st2.text)
			if _, ok := known[text2]; !ok {
				if f := prepare(ci, st2); f != nil {
					return nil, f
				}
			}
			texts = append(texts, text2)
			idem = idem && st2.idem
			msg = &message.Batch{Consistency: primitive.ConsistencyLevelOne, Children: []*message.BatchChild{
				{Id: known[text], Values: vals}, {Query: "INSERT INTO ks1.t (k) VALUES ('" + tok + "')"}, {Id: known[text2], Values: vals}}}
			q.Kind = "batch"
		} else {
			ex := &message.Execute{QueryId: known[text], Options: &message.QueryOptions{Consistency: primitive.ConsistencyLevelOne, PositionalValues: vals}}
			if r.v.SupportsResultMetadataId() {
				ex.ResultMetadataId = []byte{0xAB, 0xCD}
			}
			msg = ex
		}
		if len(a.Fail) > 0 {
			// attempt 0 of the PREPARE token was the client's own PREPARE; later attempts are re-preparations
			seen := len(e.Cluster.Attempts(tokText(st.text)))
			script := make([]fakecass.Outcome, seen)
			for i := range script {
				script[i] = fakecass.Outcome{Kind: "ok"}
			}
			e.Cluster.Script(tokText(st.text), append(script, a.Fail...))
		}
		s := r.nextStream()
		f, err := buildFrame(r.v, s, msg, false, r.c.Comp, r.compress)
		if err != nil {
			return nil, evid.Failf("harness-build", "%v", err)
		}
		if a.Traced {
			f.Flags |= wire.FlagTracing // the backend then answers - UNPREPARED included - with a tracing id in front of the body
		}
		from := r.c.NumFrames()
		if err := r.c.SendFrame(f); err != nil {
			return nil, evid.Failf("harness-send", "%v", err)
		}
		what := fmt.Sprintf("client %d (%s) %s of %q", ci, classes[ci], q.Kind, st.text)
		wait := func() *evid.Fail {
			stallReset()
			rp := r.c.WaitStream(s, from, 1, posWait)
			if rp == nil {
				if stalled(posWait) {
					return evid.Failf("harness-stall", "stalled")
				}
				return evid.Failf("no-reply:"+q.Kind, "%s: no reply (attempts [%s])\n%s", what, traceString(e.Cluster.Attempts(tok)), proxyStacks())
			}
			ri, err := r.reply(rp)
			if err != nil {
				return evid.Failf("undecodable", "%v", err)
			}
			if len(a.Fail) > 0 {
				e.Cluster.Script(tokText(st.text), nil) // unconsumed failures must not hit later PREPAREs
			}
			return judge(ci, what, texts, idem, a.Fail, ri, tok)
		}
		return wait, nil
	}
	sessions := func() int {
		// how many backend connections a fully connected host has (control connection aside)
		n := 0
		for i := 0; i < c.Hosts; i++ {
			if l := len(e.Cluster.Host(i).Conns()); l > n {
				n = l
			}
		}
		return n
	}
	for ai, a := range c.Actions {
		ci := a.Client % len(c.Clients)
		switch a.Op {
		case "prepare":
			pool := c08Pool(classes[ci])
			if f := prepare(ci, pool[a.Stmt%len(pool)]); f != nil {
				return f
			}
		case "execute", "batch":
			baseline := e.Cluster.LiveConns()
			w, f := exec(ci, a, a.Op == "batch")
			if f != nil {
				return f
			}
			if f := w(); f != nil {
				return f
			}
			for _, fo := range a.Fail {
				if fo.Kind == "drop" {
					// a scripted connection loss: let the pool replace the connection before the next action, so
					// that "hosts that are up" and "hosts with a usable connection" coincide again
					deadline := time.Now().Add(posWait)
					for restored := false; !restored; {
						restored = true
						for h, n := range e.Cluster.LiveConns() {
							if n < baseline[h] {
								restored = false
							}
						}
						if time.Now().After(deadline) {
							return evid.Failf("no-reconnect", "action %d: a dropped pooled connection was not replaced within %v", ai, posWait)
						}
						time.Sleep(time.Millisecond)
					}
					// ... and wait until this client's session can actually use every host again (the backend
					// sees the new TCP connection before the proxy's pool has finished its handshake)
					seen := map[int]bool{}
					for len(seen) < upHosts() {
						r := rs[ci]
						ps := r.nextStream()
						from := r.c.NumFrames()
						_ = r.c.SendMsg(r.v, ps, &message.Query{Query: "SELECT * FROM ks1.probe WHERE k = '" + nextToken() + "'", Options: &message.QueryOptions{Consistency: primitive.ConsistencyLevelOne}}, false)
						if rp := r.c.WaitStream(ps, from, 1, posWait); rp != nil {
							if pri, err := r.reply(rp); err == nil && pri.Echo != nil {
								seen[pri.Echo.Host] = true
							}
						}
						if time.Now().After(deadline) {
							return evid.Failf("no-reconnect", "action %d: %v after a scripted connection loss only hosts %v serve this client's session again", ai, posWait, seen)
						}
						time.Sleep(time.Millisecond)
					}
					break
				}
			}
		case "burst":
			// many EXECUTEs of one statement in flight at once (a hot statement after hosts lost it)
			var waits []func() *evid.Fail
			for k := 0; k < a.N; k++ {
				b := a
				b.Fail = nil
				w, f := exec((ci+k)%len(c.Clients), b, false)
				if f != nil {
					return f
				}
				waits = append(waits, w)
			}
			for _, w := range waits {
				if f := w(); f != nil {
					if f.Sig != "cross-session-reprepare" { // the recorded finding keeps its signature wherever it shows up
						f.Sig = "burst:" + f.Sig
					}
					return f
				}
			}
		case "forget":
			h := e.Cluster.Host(a.Host % e.Cluster.NumHosts())
			if a.All {
				h.Forget()
			} else {
				pool := c08Pool(classes[ci])
				if id, ok := known[withTok(pool[a.Stmt%len(pool)].text)]; ok {
					h.Forget(hex.EncodeToString(id))
				}
			}
		case "restart_host":
			h := e.Cluster.Host(a.Host % e.Cluster.NumHosts())
			// A control connection that is still in its handshake (after an earlier restart) cannot be told from a pooled
			// connection yet and may settle on another host afterwards: count only once the control connection is registered.
			// (False alarm met in a thorough run on a busy machine: "no-reconnect ... 6 of 7 connections".)
			for dl := time.Now().Add(posWait); len(e.Cluster.RegisteredConns()) == 0 && time.Now().Before(dl); {
				time.Sleep(time.Millisecond)
			}
			want := 0
			for _, cn := range h.Conns() {
				if !cn.IsRegistered() { // the control connection fails over to another host
					want++
				}
			}
			h.Stop()
			h.Forget()
			if err := h.Start(); err != nil {
				return evid.Failf("harness-restart", "%v", err)
			}
			hostClass[h.Idx] = "restarted-host"
			deadline := time.Now().Add(posWait)
			for len(h.Conns()) < want {
				if time.Now().After(deadline) {
					return evid.Failf("no-reconnect", "action %d: proxy did not reconnect to restarted host %d within %v (%d of %d connections)", ai, h.Idx, posWait, len(h.Conns()), want)
				}
				time.Sleep(time.Millisecond)
			}
			time.Sleep(3 * time.Millisecond)
		case "add_host":
			want := sessions()
			h, err := e.Cluster.AddHost(true)
			if err != nil {
				return evid.Failf("harness-addhost", "%v", err)
			}
			hostClass[h.Idx] = "joined-later"
			// the proxy learns about it when its control connection (re)reads the peers table
			for _, cn := range e.Cluster.RegisteredConns() {
				cn.Close()
			}
			deadline := time.Now().Add(posWait)
			for len(h.Conns()) < want-1 || len(e.Cluster.RegisteredConns()) == 0 {
				if time.Now().After(deadline) {
					return evid.Failf("host-not-joined", "action %d: proxy opened %d connections to the new host within %v (expected about %d)", ai, len(h.Conns()), posWait, want)
				}
				time.Sleep(time.Millisecond)
			}
			time.Sleep(5 * time.Millisecond)
		}
	}
	return nil
}

func c08Gen(rt *rapid.T, shared bool) c08Case {
	c := c08Case{Hosts: rapid.IntRange(2, 4).Draw(rt, "hosts"), Conns: rapid.IntRange(1, 2).Draw(rt, "conns"), Shared: shared}
	nc := rapid.IntRange(1, 3).Draw(rt, "nclients")
	for i := 0; i < nc; i++ {
		v := rapid.SampledFrom([]int{4, 4, 4, 3, 5, 66}).Draw(rt, "version")
		comps := []string{"", "lz4", "snappy"}
		if v == 5 {
			comps = []string{"", "lz4"}
		}
		c.Clients = append(c.Clients, c07Client{Version: v, Comp: comps[rapid.IntRange(0, len(comps)-1).Draw(rt, "comp")]})
	}
	n := rapid.IntRange(3, 25).Draw(rt, "nactions")
	hosts := c.Hosts
	for i := 0; i < n; i++ {
		a := c08Action{Client: rapid.IntRange(0, nc-1).Draw(rt, "client"), Stmt: rapid.IntRange(0, 4).Draw(rt, "stmt"), Stmt2: rapid.IntRange(0, 4).Draw(rt, "stmt2")}
		switch k := rapid.IntRange(0, 19).Draw(rt, "action"); {
		case k < 3:
			a.Op = "prepare"
		case k < 10:
			a.Op = "execute"
		case k < 12:
			a.Op = "batch"
		case k < 15:
			a.Op, a.Host, a.All = "forget", rapid.IntRange(0, hosts-1).Draw(rt, "host"), rapid.Bool().Draw(rt, "all")
		case k == 15 && hosts < 6 && !shared:
			a.Op = "add_host"
			hosts++
		case k == 16 && !shared:
			a.Op, a.Host = "restart_host", rapid.IntRange(0, hosts-1).Draw(rt, "host")
		case k == 17:
			a.Op, a.N = "burst", rapid.IntRange(2, 40).Draw(rt, "burst")
		default:
			a.Op = "execute"
		}
		if (a.Op == "execute" || a.Op == "batch") && rapid.IntRange(0, 4).Draw(rt, "hasfail") == 0 {
			nf := rapid.IntRange(1, 3).Draw(rt, "nfail")
			for j := 0; j < nf; j++ {
				a.Fail = append(a.Fail, fakecass.Outcome{Kind: rapid.SampledFrom([]string{"invalid", "server_error", "overloaded", "unavailable", "syntax", "drop"}).Draw(rt, "failkind")})
			}
		}
		if a.Op == "execute" || a.Op == "batch" || a.Op == "burst" {
			a.Traced = rapid.IntRange(0, 3).Draw(rt, "traced") == 0
		}
		c.Actions = append(c.Actions, a)
	}
	c.Warn = rapid.IntRange(0, 4).Draw(rt, "warn") == 0
	return c
}

func c08Labels(c c08Case) (labels []string, nontrivial bool) {
	forgot := false
	for _, a := range c.Actions {
		labels = append(labels, "op:"+a.Op)
		if a.Traced {
			labels = append(labels, "traced-request")
		}
		switch a.Op {
		case "forget", "add_host", "restart_host":
			forgot = true
		case "execute", "batch", "burst":
			if forgot || c.Hosts > 1 {
				nontrivial = true
			}
			for _, f := range a.Fail {
				labels = append(labels, "reprepare:"+f.Kind)
			}
		}
	}
	for _, cl := range c.Clients {
		labels = append(labels, "client:"+protogen.VersionName(primitive.ProtocolVersion(cl.Version))+"/"+map[bool]string{true: cl.Comp, false: "plain"}[cl.Comp != ""])
	}
	return
}

// exhaust: the statement is in the proxy's cache, the host has forgotten it, and nearly every stream id of the host's only
// connection is taken, so the proxy's re-PREPARE competes with other clients' requests for the last free id and sometimes
// cannot be sent. The client must still never be handed UNPREPARED (the request moves on to the next host, or fails with the
// proxy's own error when there is none).
var c08ExhaustUnsendable int64

func c08ExhaustCheck(c c01Exhaust) *evid.Fail {
	return exhaustRun(c, func(k int, r *rawcli.Recv, trace string) *evid.Fail {
		if r.F.Op != byte(primitive.OpCodeError) {
			return nil
		}
		body, err := r.F.Decode("")
		if err != nil {
			return evid.Failf("undecodable-reply:exhaust", "EXECUTE %d: %v", k, err)
		}
		if _, ok := body.Message.(*message.ServerError); ok {
			atomic.AddInt64(&c08ExhaustUnsendable, 1) // the re-PREPARE could not be sent and no other host had a free stream id either
		}
		if _, ok := body.Message.(*message.Unprepared); ok {
			return evid.Failf("unprepared-seen:exhaust", "EXECUTE %d of a statement that is in the proxy's prepared cache was answered UNPREPARED while %d of 2048 stream ids per host (%d host(s)) were held and %d other clients kept sending; backend saw [%s]", k, c.Held, max(c.Hosts, 1), c.Hammer, trace)
		}
		return nil
	})
}

func TestC08(t *testing.T) {
	rec := evid.New("C08", "fault_enumeration",
		"histories of PREPARE / EXECUTE / BATCH (prepared and string children) by 1..3 clients of different versions and compressions over 2..4 hosts x 1..2 connections, with hosts forgetting statements (one id or all), restarting, joining after start-up, bursts of concurrent EXECUTEs of one statement, and scripted outcomes (error kinds, connection loss) for the proxy's re-preparations; "+
			"oracle: an EXECUTE/BATCH of ids that were PREPAREd through the proxy is never answered UNPREPARED, succeeds whenever fewer re-preparations are scripted to fail than hosts are up (idempotent or no connection loss), and is always answered; "+
			"non-trivial = an EXECUTE/BATCH that can land on a host lacking the statement; distinct by case content")
	defer finish(t, rec)
	rec.SetJournalAll(true)
	rec.Assume("every statement text belongs to one client class (version, compression): sharing a text between classes is the recorded cross-session finding, demonstrated by the 'shared' sub-check",
		"hosts that join later are announced by making the control connection re-read the peers table (the 10s refresh window is not configurable through proxy.Config)")
	runProp(t, rec, "history", perShard(evid.Pick(1600, 100000)), func(rt *rapid.T) c08Case {
		c := c08Gen(rt, false)
		labels, nt := c08Labels(c)
		key := ""
		if nt {
			key = js(c)
		}
		rec.Case(key, labels...)
		if len(c.Actions) <= 6 {
			rec.Sample(c)
		}
		return c
	}, c08Check)
	runProp(t, rec, "shared", perShard(evid.Pick(120, 4000)), func(rt *rapid.T) c08Case {
		c := c08Gen(rt, true)
		for len(c.Clients) < 2 {
			c.Clients = append(c.Clients, c07Client{Version: 4, Comp: "lz4"})
		}
		rec.Case("shared:"+js(c), "shared-texts")
		return c
	}, c08Check)
	runProp(t, rec, "exhaust", perShard(evid.Pick(40, 800)), func(rt *rapid.T) c01Exhaust {
		c := c01Exhaust{Held: rapid.SampledFrom([]int{2040, 2044, 2046, 2047}).Draw(rt, "held"), Executes: rapid.IntRange(10, 40).Draw(rt, "executes"),
			Hammer: rapid.IntRange(1, 3).Draw(rt, "hammer"), Hosts: rapid.IntRange(1, 2).Draw(rt, "hosts")}
		rec.Case("exhaust:"+js(c), "exhaust", fmt.Sprintf("exhaust:hosts=%d", c.Hosts))
		rec.Sample(c)
		return c
	}, c08ExhaustCheck)
	rec.ExtraAdd("exhaust_executes_answered_by_proxy_error", atomic.LoadInt64(&c08ExhaustUnsendable))
}
