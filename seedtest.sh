#!/bin/bash
# usage: seedtest.sh <patch.diff> <ID> [<ID>...]   apply a seeded change to /repo, run quick checks, undo
patch=$1; shift
cd /repo || exit 3
if ! git diff --quiet; then echo "repo dirty"; exit 3; fi
if ! git apply --check "$patch" 2>/dev/null; then
  if git apply --3way "$patch" 2>/dev/null; then git reset -q; else echo "PATCH DOES NOT APPLY: $patch"; git reset -q --hard HEAD; exit 3; fi
else git apply "$patch"; fi
for id in "$@"; do
  out=$(cd /verif && VERIF_SEED=${VERIF_SEED:-1} ./run $id ${TIER:-quick} 2>&1); rc=$?
  echo "== $id rc=$rc $(echo "$out" | grep -c '^VIOLATION') violations; first: $(echo "$out" | grep -m1 '^VIOLATION' | cut -c1-300)"
  [ $rc -eq 2 ] && echo "$out" | tail -3
done
git -C /repo reset -q --hard HEAD; git -C /repo clean -fdq
