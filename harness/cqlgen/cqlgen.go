// Package cqlgen derives CQL DML statements from a grammar of the documented forms and
// attaches ground truth computed from the derivation (never from the parser under test):
// which documented non-idempotent constructs were planted, and whether the statement lies
// in the "plain" sub-grammar that must be classified idempotent.
package cqlgen

import (
	"fmt"
	"strings"

	"pgregory.net/rapid"
)

type TokKind int

const (
	TkOther   TokKind = iota
	TkKeyword         // letter case may vary
	TkFunc            // unquoted function name: letter case may vary
)

type Tok struct {
	Text string  `json:"t"`
	Kind TokKind `json:"k,omitempty"`
}

// Slot is a term position: tokens [Start,End) can be replaced by any other term.
type Slot struct {
	Start, End int
	Depth      int
	Ctx        string // where the term sits: insert-value, assign-rhs, where-operand, ...
}

type Stmt struct {
	Toks    []Tok    `json:"toks"`
	Slots   []Slot   `json:"-"`
	Kind    string   `json:"kind"`    // insert update delete batch select
	Planted []string `json:"planted"` // documented non-idempotent constructs present ("construct@position")
	Neutral []string `json:"neutral"` // constructs about which the property promises nothing
	Clauses int      `json:"clauses"`
	Colls   int      `json:"colls"`
	MaxDep  int      `json:"maxdepth"`
}

// Plain: built only from what the property promises to accept.
func (s *Stmt) Plain() bool { return len(s.Planted) == 0 && len(s.Neutral) == 0 }

func (s *Stmt) Text() string {
	var sb strings.Builder
	for i, t := range s.Toks {
		if i > 0 {
			sb.WriteByte(' ')
		}
		sb.WriteString(t.Text)
	}
	return sb.String()
}

// Shape is the token-kind sequence (literal values abstracted), used for distinctness.
func (s *Stmt) Shape() string {
	var sb strings.Builder
	for _, t := range s.Toks {
		x := t.Text
		switch {
		case t.Kind == TkKeyword || t.Kind == TkFunc:
			sb.WriteString(strings.ToLower(x))
		case len(x) > 0 && (x[0] == '\'' || x[0] == '$'):
			sb.WriteString("S")
		case len(x) > 0 && x[0] == '"':
			sb.WriteString("Q")
		case len(x) > 0 && (x[0] >= '0' && x[0] <= '9' || x[0] == '-' && len(x) > 1):
			sb.WriteString("N")
		case len(x) > 0 && (x[0] >= 'a' && x[0] <= 'z' || x[0] >= 'A' && x[0] <= 'Z'):
			sb.WriteString("i")
		default:
			sb.WriteString(x)
		}
		sb.WriteByte(' ')
	}
	return sb.String()
}

type gen struct {
	t     *rapid.T
	toks  []Tok
	slots []Slot
	st    *Stmt
	depth int
	// options
	allowNeutral bool
	plantProb    int // 0..100: chance to plant at a given term position
	planted      int
	maxPlant     int
	token        string // if set, every INSERT/UPDATE/DELETE carries it as a string literal
}

func (g *gen) kw(words ...string) {
	for _, w := range words {
		g.toks = append(g.toks, Tok{w, TkKeyword})
	}
}
func (g *gen) p(texts ...string) {
	for _, w := range texts {
		g.toks = append(g.toks, Tok{w, TkOther})
	}
}
func (g *gen) fn(name string) { g.toks = append(g.toks, Tok{name, TkFunc}) }

func (g *gen) pick(label string, n int) int { return rapid.IntRange(0, n-1).Draw(g.t, label) }
func (g *gen) chance(label string, pct int) bool {
	return rapid.IntRange(0, 99).Draw(g.t, label) < pct
}

// identifiers: unreserved keywords the parser special-cases are legal column/table names.
var plainIdents = []string{"a", "b", "c", "k", "v", "col1", "my_col", "T1", "Users", "x9",
	"key", "json", "values", "contains", "ttl", "timestamp", "counter", "as", "distinct", "exists", "like", "type",
	"writetime", "count", "now", "uuid", "list", "filtering", "text"}
var quotedIdents = []string{`"MixedCase"`, `"with space"`, `"select"`, `"sel""ect"`, `"from"`, `"if"`, `"a.b"`, `"now"`, `"äö"`, `"0start"`}

func (g *gen) ident(label string) string {
	if g.chance(label+"q", 12) {
		return quotedIdents[g.pick(label+"qi", len(quotedIdents))]
	}
	return plainIdents[g.pick(label, len(plainIdents))]
}

func (g *gen) tableName() {
	if g.chance("tq", 50) {
		g.p(g.ident("ks"), ".")
	}
	g.p(g.ident("tbl"))
}

var strLits = []string{`'a'`, `''`, `'it''s'`, `'now()'`, `'select * from t; insert'`, `'IF EXISTS'`, `'x y'`, "'line1\nline2'", `'ünï'`, `'{"j": [1,2]}'`, `'uuid()'`, `'a''''b'`, `'('`, `'--'`}
var intLits = []string{"0", "1", "-1", "42", "2147483648", "-9223372036854775808", "007"}
var floatLits = []string{"1.5", "-0.25", "1e10", "1E-3", "-2.5e+7", "3.", "10.0E0"}
var hexLits = []string{"0x", "0xDEADbeef", "0X00", "0xabc"}
var uuidLits = []string{"123e4567-e89b-12d3-a456-426614174000", "ABCDEF01-2345-6789-abcd-ef0123456789", "00000000-0000-0000-0000-000000000000"}
var durLits = []string{"12h30m", "1y2mo3w4d", "-3d", "500ms", "10us", "1h", "PT1H", "P1Y2M3D", "P4W", "P2021-01-02T03:04:05"}
var kwLits = []string{"true", "false", "null", "NaN", "Infinity", "-NaN", "-Infinity"}

var idemFuncs = []string{"toTimestamp", "minTimeuuid", "blobAsInt", "my_udf", "f", "toDate", "token2", "currentdate_udf"}
var nonIdemFuncs = []string{"now", "uuid"}

// primitive literal or bind marker (always plain)
func (g *gen) atom() {
	switch g.pick("atom", 11) {
	case 0:
		g.p(strLits[g.pick("s", len(strLits))])
	case 1:
		g.p(intLits[g.pick("i", len(intLits))])
	case 2:
		g.p(floatLits[g.pick("f", len(floatLits))])
	case 3:
		g.p(hexLits[g.pick("h", len(hexLits))])
	case 4:
		g.p(uuidLits[g.pick("u", len(uuidLits))])
	case 5:
		g.p(durLits[g.pick("d", len(durLits))])
	case 6:
		g.kw(kwLits[g.pick("kwl", len(kwLits))])
	case 7, 8:
		g.p("?")
	case 9:
		g.p(":", g.ident("bm"))
	case 10:
		g.p(intLits[g.pick("i", len(intLits))])
	}
}

// plantedCall emits one of the documented non-idempotent calls in a random spelling.
func (g *gen) plantedCall(pos string) {
	name := nonIdemFuncs[g.pick("nif", 2)]
	sp := g.pick("nisp", 6)
	qual := ""
	switch sp {
	case 1, 2:
		g.fn("system")
		g.p(".")
		qual = "system."
	case 3:
		g.p(`"system"`, ".")
		qual = `"system".`
	}
	if sp == 4 {
		g.p(`"` + name + `"`)
	} else {
		g.fn(name)
	}
	g.p("(", ")")
	g.st.Planted = append(g.st.Planted, fmt.Sprintf("%s%s()@%s/d%d", qual, name, pos, g.depth))
	g.planted++
}

// term emits a term and records its slot. pos describes the syntactic position.
func (g *gen) term(pos string) {
	start := len(g.toks)
	g.depth++
	if g.depth > g.st.MaxDep {
		g.st.MaxDep = g.depth
	}
	defer func() {
		g.depth--
		g.slots = append(g.slots, Slot{start, len(g.toks), g.depth + 1, pos})
	}()
	if g.planted < g.maxPlant && g.chance("plant", g.plantProb) {
		g.plantedCall(pos)
		return
	}
	deep := g.depth < 4
	c := g.pick("termkind", 20)
	switch {
	case c < 9 || !deep:
		g.atom()
	case c == 9: // list
		g.st.Colls++
		g.p("[")
		g.terms(pos+">list", 0, 3)
		g.p("]")
	case c == 10: // set
		g.st.Colls++
		g.p("{")
		g.terms(pos+">set", 0, 3)
		g.p("}")
	case c == 11 || c == 12: // map
		g.st.Colls++
		g.p("{")
		n := g.pick("mapn", 3) + 1
		for i := 0; i < n; i++ {
			if i > 0 {
				g.p(",")
			}
			g.term(pos + ">mapkey")
			g.p(":")
			g.term(pos + ">mapval")
		}
		g.p("}")
	case c == 13: // UDT literal
		g.st.Colls++
		g.p("{")
		n := g.pick("udtn", 3) + 1
		for i := 0; i < n; i++ {
			if i > 0 {
				g.p(",")
			}
			g.p(g.ident("fld"), ":")
			g.term(pos + ">udtval")
		}
		g.p("}")
	case c == 14: // tuple
		g.st.Colls++
		g.p("(")
		// first element of a tuple literal: anything that does not start with an identifier
		g.tupleFirst(pos + ">tuple")
		n := g.pick("tupn", 3)
		for i := 0; i < n; i++ {
			g.p(",")
			g.term(pos + ">tuple")
		}
		g.p(")")
	case c == 15 || c == 16: // idempotent function call (neutral unless allowNeutral off)
		if !g.allowNeutral {
			g.atom()
			return
		}
		g.st.Neutral = append(g.st.Neutral, "funccall@"+pos)
		if g.chance("fq", 25) {
			g.p(g.ident("fks"), ".")
		}
		g.fn(idemFuncs[g.pick("fname", len(idemFuncs))])
		g.p("(")
		n := g.pick("fargs", 3)
		for i := 0; i < n; i++ {
			if i > 0 {
				g.p(",")
			}
			if g.chance("argid", 30) {
				g.p(g.ident("argcol"))
			} else {
				g.term(pos + ">funcarg")
			}
		}
		g.p(")")
	case c == 17: // cast
		if !g.allowNeutral {
			g.atom()
			return
		}
		g.st.Neutral = append(g.st.Neutral, "cast@"+pos)
		g.p("(")
		switch g.pick("casttype", 4) {
		case 0:
			g.p("int")
		case 1:
			g.p("timeuuid")
		case 2:
			g.p("list", "<", "int", ">")
		case 3:
			g.p("map", "<", "text", ",", "int", ">")
		}
		g.p(")")
		g.term(pos + ">cast")
	default:
		g.atom()
	}
}

func (g *gen) tupleFirst(pos string) {
	// an element that is itself a slot; generated so that it never begins with an identifier
	// (a '(' followed by an identifier is read as a type cast by CQL as well)
	start := len(g.toks)
	g.depth++
	if g.depth > g.st.MaxDep {
		g.st.MaxDep = g.depth
	}
	switch g.pick("tf", 4) {
	case 0, 1:
		g.atom()
	case 2:
		g.st.Colls++
		g.p("[")
		g.terms(pos+">list", 0, 2)
		g.p("]")
	case 3:
		g.st.Colls++
		g.p("(")
		g.atom()
		g.p(")")
	}
	g.depth--
	// not registered as a replaceable slot: replacing it by a call would turn the tuple into a cast
	_ = start
	_ = pos
}

func (g *gen) terms(pos string, min, max int) {
	n := min + g.pick("nterms", max-min+1)
	for i := 0; i < n; i++ {
		if i > 0 {
			g.p(",")
		}
		g.term(pos)
	}
}

func (g *gen) usingClause(isDelete bool) {
	if !g.chance("using", 30) {
		return
	}
	g.st.Clauses++
	g.kw("USING")
	one := func(k string) {
		g.kw(k)
		switch g.pick("usingv", 3) {
		case 0:
			g.p([]string{"0", "1", "42", "86400"}[g.pick("ui", 4)])
		case 1:
			g.p("?")
		case 2:
			g.p(":", g.ident("ubm"))
		}
	}
	if isDelete {
		one("TIMESTAMP")
		return
	}
	switch g.pick("usingk", 4) {
	case 0:
		one("TTL")
	case 1:
		one("TIMESTAMP")
	case 2:
		one("TTL")
		g.kw("AND")
		one("TIMESTAMP")
	case 3:
		one("TIMESTAMP")
		g.kw("AND")
		one("TTL")
	}
}

var relOps = []string{"=", "<", ">", "<=", ">=", "!="}

func (g *gen) relation() {
	switch g.pick("rel", 12) {
	case 0, 1, 2:
		g.p(g.ident("rc"), relOps[g.pick("op", len(relOps))])
		g.term("where-operand")
	case 3:
		g.p(g.ident("rc"))
		g.kw("IN")
		if g.chance("inbm", 30) {
			if g.chance("inq", 50) {
				g.p("?")
			} else {
				g.p(":", g.ident("inb"))
			}
		} else {
			g.p("(")
			g.terms("where-in", 0, 3)
			g.p(")")
		}
	case 4:
		g.p(g.ident("rc"))
		g.kw("CONTAINS")
		if g.chance("ck", 50) {
			g.kw("KEY")
		}
		g.term("where-contains")
	case 5:
		g.p(g.ident("rc"))
		g.kw("LIKE")
		g.term("where-like")
	case 6:
		g.p(g.ident("rc"))
		g.kw("IS", "NOT", "NULL")
	case 7:
		g.p(g.ident("rc"), "[")
		g.term("where-elemkey")
		g.p("]", relOps[g.pick("op", len(relOps))])
		g.term("where-operand")
	case 8:
		g.kw("TOKEN")
		g.p("(", g.ident("rc"))
		if g.chance("tok2", 40) {
			g.p(",", g.ident("rc2"))
		}
		g.p(")", relOps[g.pick("op", len(relOps))])
		g.term("where-token")
	case 9: // (a, b) IN / op
		g.p("(", g.ident("rc"))
		n := g.pick("tn", 3)
		for i := 0; i < n; i++ {
			g.p(",", g.ident("rcn"))
		}
		g.p(")")
		if g.chance("tupin", 50) {
			g.kw("IN")
		} else {
			g.p(relOps[g.pick("op", len(relOps))])
		}
		if g.chance("tupbm", 30) {
			g.p("?")
		} else {
			g.p("(")
			g.terms("where-tuple", 0, 3)
			g.p(")")
		}
	case 10: // parenthesised relation
		g.p("(", g.ident("rc"), relOps[g.pick("op", len(relOps))])
		g.term("where-operand")
		g.p(")")
	case 11:
		g.p(g.ident("rc"), "=")
		g.term("where-operand")
	}
}

func (g *gen) whereClause() {
	g.st.Clauses++
	g.kw("WHERE")
	if g.token != "" {
		g.p("tokc", "=", "'"+g.token+"'")
		g.kw("AND")
	}
	n := 1 + g.pick("nrel", 3)
	for i := 0; i < n; i++ {
		if i > 0 {
			g.kw("AND")
		}
		g.relation()
	}
}

func (g *gen) ifClause(kind string, force bool) {
	if !force && !(g.planted < g.maxPlant && g.chance("lwt", g.plantProb)) {
		return
	}
	g.planted++
	g.kw("IF")
	form := g.pick("ifform", 4)
	if kind == "insert" {
		form = 0
	} else if form == 0 {
		form = 1
	}
	switch form {
	case 0:
		g.kw("NOT", "EXISTS")
		g.st.Planted = append(g.st.Planted, "lwt:if-not-exists@"+kind)
	case 1:
		g.kw("EXISTS")
		g.st.Planted = append(g.st.Planted, "lwt:if-exists@"+kind)
	case 2:
		g.p(g.ident("ic"), relOps[g.pick("op", len(relOps))])
		g.atom()
		if g.chance("if2", 40) {
			g.kw("AND")
			g.p(g.ident("ic"), "[")
			g.atom()
			g.p("]", "=")
			g.atom()
		}
		g.st.Planted = append(g.st.Planted, "lwt:if-cond@"+kind)
	case 3:
		g.p(g.ident("ic"))
		g.kw("IN")
		g.p("(")
		g.atom()
		g.p(",")
		g.atom()
		g.p(")")
		g.st.Planted = append(g.st.Planted, "lwt:if-in@"+kind)
	}
}

func (g *gen) insert() {
	g.kw("INSERT", "INTO")
	g.tableName()
	if g.chance("json", 12) {
		g.kw("JSON")
		if g.token != "" {
			g.p(`'{"tokc": "` + g.token + `"}'`)
		} else {
			g.p(strLits[g.pick("js", len(strLits))])
		}
		if g.chance("jd", 40) {
			g.kw("DEFAULT")
			if g.chance("jdn", 50) {
				g.kw("NULL")
			} else {
				g.kw("UNSET")
			}
		}
	} else {
		n := 1 + g.pick("ncols", 4)
		g.p("(")
		if g.token != "" {
			g.p("tokc", ",")
		}
		for i := 0; i < n; i++ {
			if i > 0 {
				g.p(",")
			}
			g.p(g.ident("col"))
		}
		g.p(")")
		g.kw("VALUES")
		g.p("(")
		if g.token != "" {
			g.p("'"+g.token+"'", ",")
		}
		for i := 0; i < n; i++ {
			if i > 0 {
				g.p(",")
			}
			g.term("insert-value")
		}
		g.p(")")
	}
	g.ifClause("insert", false)
	g.usingClause(false)
}

func (g *gen) plantOp(what string) {
	g.st.Planted = append(g.st.Planted, what)
	g.planted++
}

func (g *gen) listLit() {
	g.p("[")
	n := g.pick("lln", 3)
	for i := 0; i < n; i++ {
		if i > 0 {
			g.p(",")
		}
		g.atom()
	}
	g.p("]")
}

func (g *gen) setOrMapLit() {
	g.st.Colls++
	g.p("{")
	isMap := g.chance("som", 50)
	n := 1 + g.pick("smn", 3)
	for i := 0; i < n; i++ {
		if i > 0 {
			g.p(",")
		}
		g.term("assign-collection")
		if isMap {
			g.p(":")
			g.term("assign-collection")
		}
	}
	g.p("}")
}

func (g *gen) assignment() {
	col := g.ident("ac")
	wantPlant := g.planted < g.maxPlant && g.chance("plantop", g.plantProb)
	if wantPlant {
		switch g.pick("badop", 14) {
		case 0:
			g.p(col, "=", col, "+", intLits[1+g.pick("ci", 3)])
			g.plantOp("counter:c=c+n")
		case 1:
			g.p(col, "=", col, "-", "1")
			g.plantOp("counter:c=c-n")
		case 2:
			g.p(col, "+=", "1")
			g.plantOp("counter:c+=n")
		case 3:
			g.p(col, "-=", "3")
			g.plantOp("counter:c-=n")
		case 4:
			g.p(col, "=", col, "+")
			g.listLit()
			g.plantOp("list:append")
		case 5:
			g.p(col, "=")
			g.listLit()
			g.p("+", col)
			g.plantOp("list:prepend")
		case 6:
			g.p(col, "+=")
			g.listLit()
			g.plantOp("list:append+=")
		case 7:
			g.p(col, "=", col, "-")
			g.listLit()
			g.plantOp("list:remove")
		case 8:
			g.p(col, "-=")
			g.listLit()
			g.plantOp("list:remove-=")
		case 9:
			g.p(col, "=", col, []string{"+", "-"}[g.pick("pm", 2)], "?")
			g.plantOp("ambiguous:c=c±?")
		case 10:
			g.p(col, "=", col, []string{"+", "-"}[g.pick("pm", 2)], ":", g.ident("nb"))
			g.plantOp("ambiguous:c=c±:name")
		case 11:
			g.p(col, "=", col, []string{"+", "-"}[g.pick("pm", 2)])
			g.fn(idemFuncs[g.pick("fname", len(idemFuncs))])
			g.p("(", "1", ")")
			g.plantOp("ambiguous:c=c±f(x)")
		case 12:
			g.p(col, []string{"+=", "-="}[g.pick("pm", 2)], "?")
			g.plantOp("ambiguous:c±=?")
		case 13:
			g.p(col, "=", "?", "+", col)
			g.plantOp("list:prepend-marker")
		}
		return
	}
	switch g.pick("asg", 10) {
	case 0, 1, 2, 3:
		g.p(col, "=")
		g.term("assign-rhs")
	case 4:
		g.p(col, "=", col, "+")
		g.setOrMapLit()
	case 5:
		g.p(col, "+=")
		g.setOrMapLit()
	case 6:
		g.p(col, "=")
		g.setOrMapLit()
		g.p("+", col)
	case 7:
		g.p(col, "[")
		g.term("assign-elemkey")
		g.p("]", "=")
		g.term("assign-rhs")
	case 8:
		g.p(col, ".", g.ident("fld"), "=")
		g.term("assign-rhs")
	case 9: // set removal: semantically idempotent, but the property only promises additions
		if g.allowNeutral {
			g.st.Neutral = append(g.st.Neutral, "set-removal")
			if g.chance("srm", 50) {
				g.p(col, "=", col, "-")
			} else {
				g.p(col, "-=")
			}
			g.setOrMapLit()
		} else {
			g.p(col, "=")
			g.term("assign-rhs")
		}
	}
}

func (g *gen) update() {
	g.kw("UPDATE")
	g.tableName()
	g.usingClause(false)
	g.kw("SET")
	n := 1 + g.pick("nasg", 3)
	for i := 0; i < n; i++ {
		if i > 0 {
			g.p(",")
		}
		g.assignment()
	}
	g.whereClause()
	g.ifClause("update", false)
}

func (g *gen) delete() {
	g.kw("DELETE")
	n := g.pick("ndel", 4)
	for i := 0; i < n; i++ {
		if i > 0 {
			g.p(",")
		}
		col := g.ident("dc")
		switch g.pick("delsel", 6) {
		case 0, 1, 2:
			g.p(col)
		case 3:
			g.p(col, ".", g.ident("fld"))
		case 4, 5:
			g.p(col, "[")
			if g.planted < g.maxPlant && g.chance("plantidx", g.plantProb) {
				g.p(intLits[g.pick("di", len(intLits))])
				g.plantOp("list:delete-by-index")
			} else {
				// a non-integer literal key (map element): plain
				switch g.pick("dk", 5) {
				case 0:
					g.p(strLits[g.pick("s", len(strLits))])
				case 1:
					g.p(uuidLits[g.pick("u", len(uuidLits))])
				case 2:
					g.p(floatLits[g.pick("f", len(floatLits))])
				case 3:
					g.kw("true")
				case 4:
					if g.allowNeutral {
						g.p("?")
						g.st.Neutral = append(g.st.Neutral, "delete-elem-bindmarker")
					} else {
						g.p(hexLits[g.pick("h", len(hexLits))])
					}
				}
			}
			g.p("]")
		}
	}
	g.kw("FROM")
	g.tableName()
	g.usingClause(true)
	g.whereClause()
	g.ifClause("delete", false)
}

func (g *gen) batch() {
	g.kw("BEGIN")
	switch g.pick("btype", 6) {
	case 0:
		g.kw("UNLOGGED")
	case 1:
		if g.planted < g.maxPlant && g.chance("cbatch", g.plantProb*3) {
			g.kw("COUNTER")
			g.plantOp("counter-batch")
		}
	}
	g.kw("BATCH")
	if g.chance("busing", 25) {
		g.kw("USING", "TIMESTAMP")
		g.p("12345")
	}
	n := 1 + g.pick("nchild", 4)
	for i := 0; i < n; i++ {
		before := len(g.st.Planted)
		switch g.pick("child", 3) {
		case 0:
			g.insert()
		case 1:
			g.update()
		case 2:
			g.delete()
		}
		for j := before; j < len(g.st.Planted); j++ {
			g.st.Planted[j] = fmt.Sprintf("%s|batch-child-%d", g.st.Planted[j], i)
		}
		if g.chance("semi", 50) {
			g.p(";")
		}
	}
	g.kw("APPLY", "BATCH")
}

// Opts selects the sub-grammar.
type Opts struct {
	PlantPct int    // chance (percent) of planting at each opportunity; 0 = never
	MaxPlant int    // upper bound on planted constructs
	Neutral  bool   // allow constructs the property is silent about (function calls, casts, set removal)
	Kind     string // "" = any DML kind
	Token    string // embed this token as a string literal in every child statement
}

// Gen derives one DML statement.
func Gen(t *rapid.T, o Opts) *Stmt {
	g := &gen{t: t, st: &Stmt{}, plantProb: o.PlantPct, maxPlant: o.MaxPlant, allowNeutral: o.Neutral, token: o.Token}
	kind := o.Kind
	if kind == "" {
		kind = []string{"insert", "update", "delete", "batch", "insert", "update"}[g.pick("kind", 6)]
	}
	g.st.Kind = kind
	switch kind {
	case "insert":
		g.insert()
	case "update":
		g.update()
	case "delete":
		g.delete()
	case "batch":
		g.batch()
	}
	g.st.Toks = g.toks
	g.st.Slots = g.slots
	return g.st
}

// PlantInto returns a copy of s (a statement without planted constructs) in which the
// term at slot index i has been replaced by a documented non-idempotent call.
func PlantInto(t *rapid.T, s *Stmt, i int) *Stmt {
	sl := s.Slots[i]
	g := &gen{t: t, st: &Stmt{}, maxPlant: 1, plantProb: 100}
	g.depth = sl.Depth - 1
	g.plantedCall(sl.Ctx)
	out := &Stmt{Kind: s.Kind, Neutral: s.Neutral, Clauses: s.Clauses, Colls: s.Colls, MaxDep: s.MaxDep}
	out.Toks = append(out.Toks, s.Toks[:sl.Start]...)
	out.Toks = append(out.Toks, g.toks...)
	out.Toks = append(out.Toks, s.Toks[sl.End:]...)
	out.Planted = append(append([]string{}, s.Planted...), g.st.Planted...)
	return out
}

// ---- re-spelling: same token sequence, different letter case / whitespace / terminator ----

var wsRuns = []string{" ", "  ", "\t", "\n", "\r\n", " \n ", "\t\t ", "\n\n"}

// comments are white space to CQL; a line comment ends at the first LF or CR (Cql.g: COMMENT ('--'|'//') .* ('\n'|'\r')).
// Line comments are written with a leading blank (after a '-' token "-- c" would read "--- c"). A glued block comment ("a/* c */b") separates tokens like a blank does.
var wsComments = []string{"/* c */", " /* c */ ", "/**/", "/* -- */", "/* a\nb */", " -- c\n", " --c\n", " // c\n", " -- c\r", " // c\r", " -- c\r\n", " --\r", " //\n", "\r", " \r "}

// ws draws a white-space run: mostly blanks, one time in seven a comment or a bare CR.
func ws(t *rapid.T) string {
	if rapid.IntRange(0, 6).Draw(t, "wscomment") == 0 {
		return wsComments[rapid.IntRange(0, len(wsComments)-1).Draw(t, "wsc")]
	}
	return wsRuns[rapid.IntRange(0, len(wsRuns)-1).Draw(t, "ws")]
}

func glueOK(l, r string) bool {
	// may two tokens be written without whitespace in between without changing tokenisation?
	switch l {
	case "(", "[", "{", ",":
		return true
	}
	switch r {
	case ")", "]", "}", ",", ";":
		return true
	}
	if r == "(" || r == "[" {
		// ident( , ident[ : fine; but not after an operator such as '=' glued to '(' (still fine lexically)
		return true
	}
	if l == "." || r == "." {
		// qualified names: only between identifiers (never after a number)
		c := l[len(l)-1]
		if l == "." {
			return true
		}
		return !(c >= '0' && c <= '9')
	}
	if l == ":" {
		return true
	}
	return false
}

func mixCase(t *rapid.T, s string) string {
	switch rapid.IntRange(0, 3).Draw(t, "case") {
	case 0:
		return strings.ToLower(s)
	case 1:
		return strings.ToUpper(s)
	case 2:
		return s
	}
	b := []byte(s)
	mask := rapid.Uint64().Draw(t, "casemask")
	for i := range b {
		if mask&(1<<uint(i%64)) != 0 {
			b[i] = strings.ToUpper(string(b[i]))[0]
		} else {
			b[i] = strings.ToLower(string(b[i]))[0]
		}
	}
	return string(b)
}

// Respell renders the statement with generated letter case (keywords, unquoted function
// names), whitespace runs and an optional trailing semicolon. CQL meaning is unchanged.
func Respell(t *rapid.T, s *Stmt) string {
	var sb strings.Builder
	if rapid.IntRange(0, 4).Draw(t, "leadws") == 0 {
		sb.WriteString(ws(t))
	}
	for i, tk := range s.Toks {
		if i > 0 {
			prev := s.Toks[i-1].Text
			if glueOK(prev, tk.Text) && rapid.IntRange(0, 2).Draw(t, "glue") > 0 {
				// no whitespace
			} else {
				sb.WriteString(ws(t))
			}
		}
		if tk.Kind == TkKeyword || tk.Kind == TkFunc {
			sb.WriteString(mixCase(t, tk.Text))
		} else {
			sb.WriteString(tk.Text)
		}
	}
	switch rapid.IntRange(0, 4).Draw(t, "term") {
	case 0:
		sb.WriteString(";")
	case 1:
		sb.WriteString(" ;")
	case 2:
		sb.WriteString(ws(t))
	case 3:
		sb.WriteString(";" + ws(t))
	}
	return sb.String()
}
