package checks

import (
	"fmt"
	"strings"
	"testing"
	"time"

	"github.com/datastax/cql-proxy/proxy"
	"github.com/datastax/go-cassandra-native-protocol/message"
	"github.com/datastax/go-cassandra-native-protocol/primitive"
	"pgregory.net/rapid"

	"verif/harness/evid"
	"verif/harness/fakecass"
)

// ---- C05: retries follow the documented policy, terminate, and fail over ----

// (a) decision functions of the default policy, enumerated exhaustively over small fields

type c05Decision struct {
	Fn          string `json:"fn"`
	RetryCount  int    `json:"retry_count"`
	Received    int32  `json:"received,omitempty"`
	BlockFor    int32  `json:"block_for,omitempty"`
	DataPresent bool   `json:"data_present,omitempty"`
	WriteType   string `json:"write_type,omitempty"`
	ErrKind     string `json:"err_kind,omitempty"`
}

// documented policy (doc comments of proxy/retrypolicy.go and the property text)
func c05DocumentedDecision(d c05Decision) string {
	switch d.Fn {
	case "read_timeout":
		if d.RetryCount == 0 && d.Received >= d.BlockFor && !d.DataPresent {
			return "same"
		}
	case "write_timeout":
		if d.RetryCount == 0 && d.WriteType == "BATCH_LOG" {
			return "same"
		}
	case "unavailable":
		if d.RetryCount == 0 {
			return "next"
		}
	case "error_response":
		if d.ErrKind != "read_failure" && d.ErrKind != "write_failure" {
			return "next"
		}
	}
	return "return"
}

func c05DecisionCheck(d c05Decision) *evid.Fail {
	p := proxy.NewDefaultRetryPolicy()
	var got proxy.RetryDecision
	switch d.Fn {
	case "read_timeout":
		got = p.OnReadTimeout(&message.ReadTimeout{Received: d.Received, BlockFor: d.BlockFor, DataPresent: d.DataPresent}, d.RetryCount)
	case "write_timeout":
		got = p.OnWriteTimeout(&message.WriteTimeout{WriteType: primitive.WriteType(d.WriteType), Received: d.Received, BlockFor: d.BlockFor}, d.RetryCount)
	case "unavailable":
		got = p.OnUnavailable(&message.Unavailable{Required: d.BlockFor, Alive: d.Received}, d.RetryCount)
	case "error_response":
		got = p.OnErrorResponse(fakecass.ErrorFor(fakecass.Outcome{Kind: d.ErrKind}, "x", primitive.ProtocolVersion4, nil).(message.Error), d.RetryCount)
	}
	g := map[proxy.RetryDecision]string{proxy.RetrySame: "same", proxy.RetryNext: "next", proxy.ReturnError: "return"}[got]
	if want := c05DocumentedDecision(d); g != want {
		return evid.Failf("decision:"+d.Fn, "default policy decides %q, documented policy says %q for %s", g, want, js(d))
	}
	return nil
}

func c05Decisions(yield func(c05Decision) bool) {
	wts := []string{"SIMPLE", "BATCH", "UNLOGGED_BATCH", "COUNTER", "BATCH_LOG", "CAS", "VIEW", "CDC", "", "batch_log"}
	for rc := 0; rc <= 5; rc++ {
		for rcv := int32(0); rcv <= 5; rcv++ {
			for bf := int32(0); bf <= 5; bf++ {
				for _, dp := range []bool{false, true} {
					if !yield(c05Decision{Fn: "read_timeout", RetryCount: rc, Received: rcv, BlockFor: bf, DataPresent: dp}) {
						return
					}
				}
				for _, wt := range wts {
					if !yield(c05Decision{Fn: "write_timeout", RetryCount: rc, Received: rcv, BlockFor: bf, WriteType: wt}) {
						return
					}
				}
				if !yield(c05Decision{Fn: "unavailable", RetryCount: rc, Received: rcv, BlockFor: bf}) {
					return
				}
			}
		}
		for _, k := range []string{"server_error", "overloaded", "truncate", "read_failure", "write_failure"} {
			if !yield(c05Decision{Fn: "error_response", RetryCount: rc, ErrKind: k}) {
				return
			}
		}
	}
}

// (b) end to end

type c05Case struct {
	Hosts           int       `json:"hosts"`
	Conns           int       `json:"conns"`
	Down            []int     `json:"down,omitempty"`
	IdempotentGraph bool      `json:"idempotent_graph,omitempty"`
	Reqs            []reqSpec `json:"requests"`
	// Lose[h] = k >= 0: before the requests start, host h loses pooled connection k of its two and the
	// replacement hangs in its handshake, so the host keeps exactly one usable connection (it is not "down")
	Lose []int `json:"lose_conn,omitempty"`
	Warn bool  `json:"backend_warns,omitempty"` // error answers carry a warning (header flag 0x08; the error code is not at offset 0)
}

type expAttempt struct {
	Host    int
	Outcome string
}

// retryModel walks the documented policy. plan is the cyclic host order starting at the
// plan's first host; down hosts have no usable connection and are skipped.
func retryModel(q *reqSpec, idem bool, plan []int, down map[int]bool) (trace []expAttempt, final string) {
	retryCount := 0
	i := 0
	n := 0 // script position == attempt index of the token
	next := func() fakecass.Outcome {
		o := fakecass.Outcome{Kind: "ok"}
		if n < len(q.Script) {
			o = q.Script[n]
		}
		n++
		return o
	}
	for {
		for i < len(plan) && down[plan[i]] {
			i++
		}
		if i >= len(plan) {
			return trace, "exhausted"
		}
		h := plan[i]
		o := next()
		trace = append(trace, expAttempt{h, o.Kind})
		decision := "return"
		switch o.Kind {
		case "ok", "":
			return trace, "ok"
		case "read_timeout":
			if retryCount == 0 && o.Received >= o.BlockFor && !o.DataPresent {
				decision = "same"
			}
		case "write_timeout":
			if idem && retryCount == 0 && o.WriteType == "batch_log" {
				decision = "same"
			}
		case "unavailable":
			if retryCount == 0 {
				decision = "next"
			}
		case "bootstrapping":
			decision = "next"
		case "overloaded", "server_error", "truncate":
			if idem {
				decision = "next"
			}
		case "unprepared":
			continue // re-prepared on that host, executed there again; not a retry
		case "drop":
			if idem {
				i++
				continue // connection loss: next host, retry count untouched
			}
			return trace, "connlost"
		}
		switch decision {
		case "same":
			retryCount++
		case "next":
			retryCount++
			i++
		default:
			return trace, "error:" + o.Kind
		}
	}
}

func cyclic(start, n int) []int {
	out := make([]int, n)
	for i := range out {
		out[i] = (start + i) % n
	}
	return out
}

func traceString(as []*fakecass.Attempt) string {
	var sb []string
	for _, a := range as {
		sb = append(sb, fmt.Sprintf("h%d:%s", a.Host, a.Outcome))
	}
	return strings.Join(sb, " ")
}

func expString(as []expAttempt) string {
	var sb []string
	for _, a := range as {
		sb = append(sb, fmt.Sprintf("h%d:%s", a.Host, a.Outcome))
	}
	return strings.Join(sb, " ")
}

func outcomeKind(s string) string {
	if i := strings.Index(s, "("); i >= 0 {
		return s[:i]
	}
	return s
}

// checkRetryTrace compares the backend's attempt log and the client's reply of one
// request with the documented policy. Returns the matched final state.
func checkRetryTrace(q *reqSpec, idem bool, hosts int, down map[int]bool, attempts []*fakecass.Attempt, ri *replyInfo) (string, *evid.Fail) {
	where := fmt.Sprintf("%s idem=%v script=%v", q.Kind, idem, q.Script)
	if len(attempts) == 0 {
		// every up host... the plan may legitimately be exhausted without any attempt only if all hosts are down
		allDown := true
		for h := 0; h < hosts; h++ {
			if !down[h] {
				allDown = false
			}
		}
		if !allDown {
			return "", evid.Failf("no-attempt", "request never reached a backend although hosts are up (%s); reply %v", where, ri)
		}
		if ri == nil || !ri.IsError {
			return "", evid.Failf("exhausted-reply", "all hosts down: expected a 'no more hosts' error, got %v", ri)
		}
		return "exhausted", nil
	}
	first := attempts[0].Host
	// candidate plan starts: the first attempted host, or a down host directly before it
	var cands []int
	cands = append(cands, first)
	for s := (first - 1 + hosts) % hosts; down[s] && s != first; s = (s - 1 + hosts) % hosts {
		cands = append(cands, s)
	}
	var lastExp []expAttempt
	var lastFinal string
	for _, s := range cands {
		exp, final := retryModel(q, idem, cyclic(s, hosts), down)
		lastExp, lastFinal = exp, final
		if len(exp) != len(attempts) {
			continue
		}
		same := true
		for i := range exp {
			if exp[i].Host != attempts[i].Host || exp[i].Outcome != outcomeKind(attempts[i].Outcome) {
				same = false
				break
			}
		}
		if !same {
			continue
		}
		// trace matches; now the reply
		last := len(attempts) - 1
		switch {
		case final == "ok":
			if ri == nil || ri.Echo == nil || ri.Echo.Tok != q.Token || ri.Echo.Attempt != last {
				return final, evid.Failf("reply-not-first-success", "policy ends in success at attempt %d but the client got %v (%s; trace %s)", last, ri, where, traceString(attempts))
			}
		case strings.HasPrefix(final, "error:"):
			kind := final[6:]
			if ri == nil || !ri.IsError || ri.Code != errCodeOf(kind) || !strings.Contains(ri.Text, fmt.Sprintf("tok=%s attempt=%d ", q.Token, last)) {
				return final, evid.Failf("reply-not-first-unretried-error", "policy returns the %s error of attempt %d but the client got %v (%s; trace %s)", kind, last, ri, where, traceString(attempts))
			}
		case final == "exhausted" || final == "connlost":
			if ri == nil || !ri.IsError || ri.Code != primitive.ErrorCodeServerError || strings.Contains(ri.Text, "scripted") {
				return final, evid.Failf("reply-"+final, "expected the proxy's own %s error, client got %v (%s; trace %s)", final, ri, where, traceString(attempts))
			}
		}
		return final, nil
	}
	sig := "attempts-differ:" + lastFinal
	if len(attempts) > len(lastExp) {
		sig = "extra-attempt:" + outcomeKind(attempts[len(lastExp)-1].Outcome)
	} else if len(attempts) < len(lastExp) {
		sig = "missing-attempt:" + outcomeKind(attempts[len(attempts)-1].Outcome)
	}
	return "", evid.Failf(sig, "attempts [%s] differ from the documented policy [%s] -> %s (%s, hosts=%d down=%v); reply %v", traceString(attempts), expString(lastExp), lastFinal, where, hosts, down, ri)
}

func c05Check(c c05Case) *evid.Fail {
	e, err := startEnv(envOpts{Hosts: c.Hosts, NumConns: c.Conns, DownHosts: c.Down, IdempotentGraph: c.IdempotentGraph, Keyspaces: []string{"ks1"}})
	if err != nil {
		return evid.Failf("harness-env", "cannot start environment: %v", err)
	}
	defer e.Close()
	e.Cluster.UnpreparedAuto = false
	e.Cluster.WarnOnUnprepared = c.Warn
	r, err := newRunner(e, primitive.ProtocolVersion4, "")
	if err != nil {
		return evid.Failf("harness-client", "client: %v", err)
	}
	down := map[int]bool{}
	for _, d := range c.Down {
		down[d] = true
	}
	if c.Conns == 2 && len(c.Lose) > 0 {
		// the client's backend session must exist before one of its connections can be lost
		ws := r.nextStream()
		if err := r.c.SendMsg(4, ws, &message.Query{Query: "SELECT * FROM ks1.t WHERE tokc = '" + nextToken() + "'", Options: &message.QueryOptions{Consistency: primitive.ConsistencyLevelOne}}, false); err != nil {
			return evid.Failf("harness-send", "send: %v", err)
		}
		if r.c.WaitStream(ws, 0, 1, posWait) == nil {
			return evid.Failf("no-reply", "no reply to the warm-up request")
		}
		e.Cluster.SetHoldStartup(true)
		defer e.Cluster.ReleaseStartups()
		lost := 0
		for h, k := range c.Lose {
			if k < 0 || h >= c.Hosts || down[h] {
				continue
			}
			var pooled []*fakecass.Conn
			for _, cn := range e.Cluster.Host(h).Conns() {
				if !cn.IsRegistered() {
					pooled = append(pooled, cn)
				}
			}
			if len(pooled) != 2 {
				continue
			}
			pooled[k%2].Close()
			lost++
		}
		stallReset()
		for deadline := time.Now().Add(posWait); e.Cluster.HeldStartups() < lost; time.Sleep(time.Millisecond) {
			if time.Now().After(deadline) {
				if stalled(posWait) {
					return evid.Failf("harness-stall", "machine stalled")
				}
				return evid.Failf("no-reconnect-attempt", "%d pooled connections were lost but only %d were re-dialled within %v", lost, e.Cluster.HeldStartups(), posWait)
			}
		}
	}
	for i := range c.Reqs {
		q := &c.Reqs[i]
		stallReset()
		s, err := r.send(q)
		if err != nil {
			return evid.Failf("harness-send", "send: %v", err)
		}
		rc := r.c.WaitStream(s, 0, 1, posWait)
		if rc == nil {
			if stalled(posWait) {
				return evid.Failf("harness-stall", "machine stalled")
			}
			return evid.Failf("no-reply", "no reply within %v to %s (script %v); backend saw [%s]", posWait, q.Kind, q.Script, traceString(e.Cluster.Attempts(q.Token)))
		}
		ri, err := r.reply(rc)
		if err != nil {
			return evid.Failf("undecodable-reply", "reply cannot be decoded: %v", err)
		}
		idem := q.positivelyIdempotent(c.IdempotentGraph)
		if _, f := checkRetryTrace(q, idem, c.Hosts, down, e.Cluster.Attempts(q.Token), ri); f != nil {
			return f
		}
	}
	return nil
}

func c05GenScript(rt *rapid.T, hosts int, kind string, allowDrop bool) []fakecass.Outcome {
	n := rapid.IntRange(1, hosts+3).Draw(rt, "scriptlen")
	var out []fakecass.Outcome
	unprep := 0
	for i := 0; i < n; i++ {
		if kind == "execute" && unprep < 2 && rapid.IntRange(0, 9).Draw(rt, "unprep") == 0 {
			out = append(out, fakecass.Outcome{Kind: "unprepared"})
			unprep++
			continue
		}
		unprep = 0
		out = append(out, genOutcome(rt, allowDrop))
	}
	return out
}

func c05Gen(rt *rapid.T) c05Case {
	c := c05Case{Hosts: rapid.IntRange(1, 4).Draw(rt, "hosts"), Conns: rapid.IntRange(1, 2).Draw(rt, "conns"), IdempotentGraph: rapid.Bool().Draw(rt, "idemgraph")}
	if c.Hosts > 1 && rapid.IntRange(0, 3).Draw(rt, "hasdown") == 0 {
		nd := rapid.IntRange(1, c.Hosts-1).Draw(rt, "ndown")
		c.Down = rapid.SliceOfNDistinct(rapid.IntRange(0, c.Hosts-1), nd, nd, func(i int) int { return i }).Draw(rt, "down")
	}
	if c.Conns == 2 && rapid.IntRange(0, 3).Draw(rt, "haslose") == 0 {
		c.Lose = rapid.SliceOfN(rapid.IntRange(-1, 1), c.Hosts, c.Hosts).Draw(rt, "lose")
	}
	c.Warn = rapid.IntRange(0, 3).Draw(rt, "warn") == 0
	n := rapid.IntRange(1, 5).Draw(rt, "nreq")
	for i := 0; i < n; i++ {
		idem := rapid.Bool().Draw(rt, "idem")
		q := genReq(rt, idem, true, c.IdempotentGraph)
		last := i == n-1
		sk := q.Kind
		if q.UnknownID {
			sk = "execute-unknown-id" // UNPREPARED for an id the proxy never saw is simply passed on
		}
		q.Script = c05GenScript(rt, c.Hosts, sk, last)
		c.Reqs = append(c.Reqs, q)
	}
	return c
}

func c05Classify(c c05Case) (key string, labels []string) {
	nontrivial := false
	for _, q := range c.Reqs {
		kinds := map[string]bool{}
		okAfterRetry := false
		for i, o := range q.Script {
			kinds[o.Kind] = true
			if o.Kind == "ok" && i > 0 {
				okAfterRetry = true
			}
			labels = append(labels, "outcome:"+o.Kind)
		}
		if len(kinds) >= 2 || okAfterRetry {
			nontrivial = true
		}
		labels = append(labels, "req:"+q.Kind, fmt.Sprintf("idem:%v", q.positivelyIdempotent(c.IdempotentGraph)))
		if q.Graph {
			labels = append(labels, "graph")
		}
	}
	if len(c.Down) > 0 {
		nontrivial = true
		labels = append(labels, "down-hosts")
	}
	for _, k := range c.Lose {
		if k >= 0 {
			nontrivial = true
			labels = append(labels, "host-with-one-of-two-connections-lost")
			break
		}
	}
	labels = append(labels, fmt.Sprintf("hosts:%d", c.Hosts), fmt.Sprintf("conns:%d", c.Conns))
	if nontrivial {
		var sb strings.Builder
		fmt.Fprintf(&sb, "%d/%d/%v/%v|", c.Hosts, c.Conns, c.Down, c.Lose)
		for _, q := range c.Reqs {
			fmt.Fprintf(&sb, "%s:%v:%v;", q.Kind, q.positivelyIdempotent(c.IdempotentGraph), q.Script)
		}
		key = sb.String()
	}
	return
}

func TestC05(t *testing.T) {
	rec := evid.New("C05", "fault_enumeration",
		"(a) the four decision functions of the default retry policy enumerated exhaustively for retry counts 0..5 and field values 0..5 / all write types / all error kinds against the documented policy; "+
			"(b) clusters of 1..4 hosts x 1..2 connections (some hosts without a usable connection, some hosts that lost one of their two connections and are still usable), requests of every kind and both idempotency classes, per-attempt outcome scripts (every error kind, connection loss) executed through the proxy; the backend's attempt log and the client's reply must equal an independent model of the documented policy; "+
			"non-trivial = script with >=2 distinct outcome kinds, a success after a retry, a host without connection or a host with a partially lost pool; distinct by (cluster shape, request kinds, scripts)")
	defer finish(t, rec)
	rec.SetJournalAll(true)
	rec.Assume("ground-truth idempotency comes from the statement generator (cqlgen), not from package parser",
		"requests of one case run one at a time; a script with connection loss is only given to the last request of a case so that pool reconnection cannot make host availability ambiguous",
		"an UNPREPARED outcome is bounded to 2 in a row: a backend answering UNPREPARED forever makes the proxy re-prepare forever (DESIGN.md §4)")

	ndec := 0
	runEnum(t, rec, "decisions", func(yield func(c05Decision) bool) {
		c05Decisions(func(d c05Decision) bool {
			ndec++
			rec.Case("D:"+js(d), "decision:"+d.Fn)
			if ndec%700 == 1 {
				rec.Sample(d)
			}
			return yield(d)
		})
	}, c05DecisionCheck)
	rec.Extra("decision_points_enumerated", int64(ndec))

	runProp(t, rec, "retries", perShard(evid.Pick(12000, 600000)), func(rt *rapid.T) c05Case {
		c := c05Gen(rt)
		key, labels := c05Classify(c)
		rec.Case(key, labels...)
		rec.Sample(c)
		return c
	}, c05Check)
}
