// Command proxyhost runs an in-tree proxy.Proxy as a separate process with the timers a
// check needs (the cql-proxy binary fixes the reconnect policy at 2s..10min). A panic of
// a proxy goroutine then kills this process, not the test process.
package main

import (
	"context"
	"flag"
	"fmt"
	"net"
	"os"
	"time"

	"github.com/datastax/cql-proxy/proxy"
	"github.com/datastax/cql-proxy/proxycore"
	"github.com/datastax/go-cassandra-native-protocol/primitive"
)

func main() {
	contact := flag.String("contact", "", "contact point ip")
	port := flag.Int("port", 9042, "backend port")
	bind := flag.String("bind", "127.0.0.1:0", "listen address")
	maxv := flag.Int("maxversion", 4, "max protocol version (wire value)")
	ver := flag.Int("version", 4, "backend protocol version (wire value)")
	conns := flag.Int("numconns", 1, "connections per host")
	rb := flag.Duration("reconnbase", 5*time.Millisecond, "reconnect base delay")
	rm := flag.Duration("reconnmax", 25*time.Millisecond, "reconnect max delay")
	hb := flag.Duration("heartbeat", 30*time.Second, "heartbeat interval")
	idle := flag.Duration("idle", 60*time.Second, "idle timeout")
	ct := flag.Duration("connecttimeout", 5*time.Second, "connect timeout")
	flag.Parse()
	ctx := context.Background()
	p := proxy.NewProxy(ctx, proxy.Config{
		Version:           primitive.ProtocolVersion(*ver),
		MaxVersion:        primitive.ProtocolVersion(*maxv),
		Resolver:          proxycore.NewResolverWithDefaultPort([]string{*contact}, *port),
		ReconnectPolicy:   proxycore.NewReconnectPolicyWithDelays(*rb, *rm),
		NumConns:          *conns,
		HeartBeatInterval: *hb,
		IdleTimeout:       *idle,
		ConnectTimeout:    *ct,
	})
	if err := p.Connect(); err != nil {
		fmt.Fprintln(os.Stderr, "proxyhost: connect:", err)
		os.Exit(3)
	}
	ln, err := net.Listen("tcp", *bind)
	if err != nil {
		fmt.Fprintln(os.Stderr, "proxyhost: listen:", err)
		os.Exit(3)
	}
	fmt.Println("LISTENING", ln.Addr().String())
	fmt.Fprintln(os.Stderr, "proxyhost: serve:", p.Serve(ln))
	os.Exit(4)
}
