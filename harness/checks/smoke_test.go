package checks

import (
	"testing"
	"time"

	"github.com/datastax/go-cassandra-native-protocol/message"
	"github.com/datastax/go-cassandra-native-protocol/primitive"

	"verif/harness/fakecass"
)

func TestSmokeEnv(t *testing.T) {
	for _, comp := range []string{"", "lz4", "snappy"} {
		t0 := time.Now()
		e, err := startEnv(envOpts{Hosts: 3, NumConns: 2, Keyspaces: []string{"ks1"}})
		if err != nil {
			t.Fatal(err)
		}
		t.Logf("env up in %v", time.Since(t0))
		c, err := e.client(primitive.ProtocolVersion4, comp)
		if err != nil {
			t.Fatal(err)
		}
		tok := fakecass.Token(1)
		e.Cluster.Script(tok, []fakecass.Outcome{{Kind: "unavailable"}, {Kind: "ok"}})
		if err := c.SendMsg(primitive.ProtocolVersion4, 5, &message.Query{Query: "SELECT * FROM ks1.t WHERE k = '" + tok + "'", Options: &message.QueryOptions{Consistency: primitive.ConsistencyLevelOne}}, comp != ""); err != nil {
			t.Fatal(err)
		}
		r := c.WaitStream(5, 0, 1, posWait)
		if r == nil {
			t.Fatal("no reply")
		}
		b, err := c.Decode(r)
		if err != nil {
			t.Fatal(err)
		}
		ei, ok := parseEcho(b.Message)
		t.Logf("comp=%q reply %T echo=%+v ok=%v attempts=%d in %v", comp, b.Message, ei, ok, len(e.Cluster.Attempts(tok)), time.Since(t0))
		if !ok || ei.Attempt != 1 {
			t.Errorf("unexpected reply")
		}
		t1 := time.Now()
		e.Close()
		t.Logf("closed in %v", time.Since(t1))
	}
}
