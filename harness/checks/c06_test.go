package checks

import (
	"fmt"
	"strings"
	"testing"
	"time"

	"github.com/datastax/cql-proxy/parser"
	"pgregory.net/rapid"

	"verif/harness/cqlgen"
	"verif/harness/evid"
)

// ---- C06: the idempotency classifier is sound, spelling-stable and total ----

type c06Case struct {
	Text     string   `json:"text"`
	Want     string   `json:"want"` // "true" | "false" | "any" | "total"
	Variants []string `json:"variants,omitempty"`
	Planted  []string `json:"planted,omitempty"`
	Why      string   `json:"why,omitempty"`
}

// classify with a watchdog: the classifier is a single pass over the input, so anything
// beyond a couple of seconds is a hang.
func c06Classify(q string) (verdict bool, err error, fail *evid.Fail) {
	type res struct {
		v   bool
		err error
		pan interface{}
	}
	ch := make(chan res, 1)
	go func() {
		defer func() {
			if p := recover(); p != nil {
				ch <- res{pan: p}
			}
		}()
		v, e := parser.IsQueryIdempotent(q)
		ch <- res{v: v, err: e}
	}()
	select {
	case r := <-ch:
		if r.pan != nil {
			return false, nil, evid.Failf("classifier-panic", "IsQueryIdempotent panicked on %q: %v", q, r.pan)
		}
		return r.v, r.err, nil
	case <-time.After(10 * time.Second):
		return false, nil, evid.Failf("classifier-hang", "IsQueryIdempotent did not return within 10s on %q", q)
	}
}

func plantedSig(p string) string {
	// "system.now()@insert-value>set/d2|batch-child-1" -> construct and position class, no depth/child index
	if i := strings.Index(p, "|"); i >= 0 {
		p = p[:i] + "|batch"
	}
	if i := strings.Index(p, "/d"); i >= 0 {
		j := strings.Index(p[i:], "|")
		if j < 0 {
			p = p[:i]
		} else {
			p = p[:i] + p[i+j:]
		}
	}
	return p
}

// leadingWord: the first word of the statement, skipping white space and comments (a comment is white space in CQL).
func leadingWord(q string) string {
	i := 0
	for i < len(q) {
		switch {
		case q[i] == ' ' || q[i] == '\t' || q[i] == '\n' || q[i] == '\r':
			i++
		case strings.HasPrefix(q[i:], "/*"):
			if e := strings.Index(q[i+2:], "*/"); e >= 0 {
				i += 2 + e + 2
			} else {
				i = len(q)
			}
		case strings.HasPrefix(q[i:], "--") || strings.HasPrefix(q[i:], "//"):
			for i < len(q) && q[i] != '\n' && q[i] != '\r' {
				i++
			}
		default:
			goto word
		}
	}
word:
	j := i
	for j < len(q) && (q[j] >= 'a' && q[j] <= 'z' || q[j] >= 'A' && q[j] <= 'Z' || q[j] >= '0' && q[j] <= '9' || q[j] == '_') {
		j++
	}
	return strings.ToLower(q[i:j])
}

func c06Check(c c06Case) *evid.Fail {
	v, err, f := c06Classify(c.Text)
	if f != nil {
		return f
	}
	if err != nil && v {
		return evid.Failf("error-but-idempotent", "IsQueryIdempotent(%q) returned an error (%v) together with verdict true", c.Text, err)
	}
	switch c.Want {
	case "false":
		if v {
			sig := "unsound"
			if len(c.Planted) > 0 {
				sig = "unsound:" + plantedSig(c.Planted[0])
			}
			return evid.Failf(sig, "classified idempotent although it contains %v: %s", c.Planted, c.Text)
		}
	case "true":
		if !v {
			return evid.Failf("plain-rejected:"+c.Why, "plain statement classified NOT idempotent (err=%v): %s", err, c.Text)
		}
	case "total":
		switch leadingWord(c.Text) {
		case "select", "insert", "update", "delete", "begin":
		default:
			if v {
				return evid.Failf("non-dml-idempotent", "input that does not start with SELECT/INSERT/UPDATE/DELETE/BEGIN classified idempotent: %q", c.Text)
			}
		}
	}
	for _, vt := range c.Variants {
		v2, err2, f := c06Classify(vt)
		if f != nil {
			return f
		}
		if err2 != nil && v2 {
			return evid.Failf("error-but-idempotent", "IsQueryIdempotent(%q) returned an error (%v) together with verdict true", vt, err2)
		}
		if v2 != v {
			return evid.Failf("spelling-unstable", "verdict %v for %q but %v (err=%v) for the re-spelling %q", v, c.Text, v2, err2, vt)
		}
	}
	return nil
}

func c06Respellings(rt *rapid.T, s *cqlgen.Stmt, n int) []string {
	var out []string
	for i := 0; i < n; i++ {
		out = append(out, cqlgen.Respell(rt, s))
	}
	return out
}

func c06Labels(s *cqlgen.Stmt) []string {
	ls := []string{"kind:" + s.Kind}
	for _, p := range s.Planted {
		p = plantedSig(p)
		cons, pos := p, ""
		if i := strings.Index(p, "@"); i >= 0 {
			cons, pos = p[:i], p[i+1:]
			if strings.HasSuffix(cons, "()") { // calls: keep the function, drop the qualifier spelling
				if strings.Contains(cons, ".") {
					cons = "system." + cons[strings.LastIndex(cons, ".")+1:]
				}
			}
			batch := strings.HasSuffix(pos, "|batch")
			pos = strings.TrimSuffix(pos, "|batch")
			if j := strings.LastIndex(pos, ">"); j >= 0 {
				pos = "nested>" + pos[j+1:]
			}
			if batch {
				pos += "|batch"
			}
		}
		ls = append(ls, "planted:"+cons+"@"+pos)
	}
	for _, n := range s.Neutral {
		if i := strings.Index(n, "@"); i >= 0 {
			n = n[:i]
		}
		ls = append(ls, "neutral:"+n)
	}
	return ls
}

var c06Hostile = []string{"'", "\"", "$", "-", "0x", "1.e", "\x00", "/*", "--", "{", "(", "[", ";", "''", "\"\"", "$$", "é", "\xff", "1e", "-.", "P", "0X", "now(", "system.", ":", "?", "+=", "-=", "IF", "APPLY", "BATCH"}

func c06Arbitrary(rt *rapid.T) string {
	switch rapid.IntRange(0, 5).Draw(rt, "arb") {
	case 0:
		return string(rapid.SliceOfN(rapid.Byte(), 0, 200).Draw(rt, "bytes"))
	case 1:
		return rapid.String().Draw(rt, "str")
	case 2: // token soup from the CQL vocabulary and hostile fragments
		vocab := append([]string{"SELECT", "INSERT", "INTO", "UPDATE", "DELETE", "FROM", "BEGIN", "BATCH", "APPLY", "SET", "WHERE", "VALUES", "USING", "TTL", "IF", "AND", "IN", "a", "b", "ks.t", "(", ")", ",", "=", "+", "-", "1", "'x'", "now()", "[", "]", "{", "}", ":", "?", ".", "USE", "CREATE", "json", "COUNTER", "UNLOGGED", "TOKEN", "IS", "NOT", "NULL", "CONTAINS", "KEY"}, c06Hostile...)
		n := rapid.IntRange(0, 40).Draw(rt, "n")
		var sb strings.Builder
		for i := 0; i < n; i++ {
			sb.WriteString(vocab[rapid.IntRange(0, len(vocab)-1).Draw(rt, "w")])
			if rapid.IntRange(0, 3).Draw(rt, "sp") > 0 {
				sb.WriteByte(' ')
			}
		}
		out := sb.String()
		// comments and $$ strings are scanned before the lexer sees the text: let statements start, contain and end
		// with their delimiters
		switch rapid.IntRange(0, 7).Draw(rt, "delims") {
		case 0:
			out = "/* c */ " + strings.TrimRight(out, " ") + " $$"
		case 1:
			out = strings.TrimRight(out, " ") + " -- $$"
		case 2:
			out = "$$" + out
		case 3:
			out = "UPDATE ks.t SET a = 1 /* " + out
		}
		return out
	default: // mutation of a valid statement
		s := cqlgen.Gen(rt, cqlgen.Opts{PlantPct: 10, MaxPlant: 2, Neutral: true})
		toks := append([]cqlgen.Tok(nil), s.Toks...)
		m := rapid.IntRange(1, 3).Draw(rt, "muts")
		for k := 0; k < m && len(toks) > 0; k++ {
			i := rapid.IntRange(0, len(toks)-1).Draw(rt, "at")
			switch rapid.IntRange(0, 4).Draw(rt, "mut") {
			case 0:
				toks = append(toks[:i], toks[i+1:]...)
			case 1:
				toks = append(toks[:i+1], toks[i:]...)
			case 2:
				j := rapid.IntRange(0, len(toks)-1).Draw(rt, "with")
				toks[i], toks[j] = toks[j], toks[i]
			case 3:
				toks[i] = cqlgen.Tok{Text: c06Hostile[rapid.IntRange(0, len(c06Hostile)-1).Draw(rt, "h")]}
			case 4:
				toks = toks[:i]
			}
		}
		st := &cqlgen.Stmt{Toks: toks}
		txt := st.Text()
		if rapid.IntRange(0, 2).Draw(rt, "cut") == 0 && len(txt) > 0 {
			txt = txt[:rapid.IntRange(0, len(txt)).Draw(rt, "cutat")]
		}
		return txt
	}
}

func TestC06(t *testing.T) {
	rec := evid.New("C06", "exploration",
		"CQL DML statements derived from a grammar (INSERT/UPDATE/DELETE/BATCH, nested terms to depth 4, all literal classes, collections, UDT/tuple literals, casts, calls, USING/WHERE/IF) with ground truth by construction; "+
			"oracles: planted documented non-idempotent construct => false, plain sub-grammar => true, all re-spellings (keyword case, whitespace/newlines, glued punctuation, trailing ';') agree, arbitrary input terminates without panic and err => false; "+
			"non-trivial = planted construct at nesting depth >=2 or inside a batch child, or a plain statement with >=1 collection literal or >=2 clauses; distinct by token-kind sequence")
	defer finish(t, rec)
	rec.Assume("ground truth comes from the generator's derivation, never from package parser",
		"identifiers exclude CQL reserved words; unreserved keywords (key, json, values, contains, ttl, timestamp, counter, as, distinct, exists, like ...) are used as names",
		"set removal, casts and calls of other functions are generated but only checked for stability/totality (the property is silent about them)")

	nontrivialKey := func(s *cqlgen.Stmt) string {
		if len(s.Planted) > 0 {
			for _, p := range s.Planted {
				if strings.Contains(p, "batch-child") || strings.Contains(p, ">") || strings.Contains(p, "/d2") || strings.Contains(p, "/d3") || strings.Contains(p, "/d4") {
					return "P:" + s.Shape()
				}
			}
			return ""
		}
		if s.Plain() && (s.Colls >= 1 || s.Clauses >= 2) {
			return "T:" + s.Shape()
		}
		return ""
	}

	// (a) mixed generator: ground truth decides the expectation
	runProp(t, rec, "grammar", perShard(evid.Pick(80000, 3200000)), func(rt *rapid.T) c06Case {
		s := cqlgen.Gen(rt, cqlgen.Opts{PlantPct: rapid.SampledFrom([]int{0, 3, 8, 20}).Draw(rt, "plantpct"), MaxPlant: 2, Neutral: rapid.Bool().Draw(rt, "neutral")})
		c := c06Case{Text: s.Text(), Planted: s.Planted, Variants: c06Respellings(rt, s, 3)}
		switch {
		case len(s.Planted) > 0:
			c.Want = "false"
		case s.Plain():
			c.Want, c.Why = "true", s.Kind
		default:
			c.Want = "any"
		}
		rec.Case(nontrivialKey(s), append(c06Labels(s), "want:"+c.Want)...)
		rec.Sample(map[string]interface{}{"text": c.Text, "want": c.Want, "planted": c.Planted, "variant": c.Variants[0]})
		return c
	}, c06Check)

	// (b) metamorphic: a plain statement, and the same statement with one term replaced by a planted call
	runProp(t, rec, "metamorphic", perShard(evid.Pick(24000, 800000)), func(rt *rapid.T) c06Case {
		var s *cqlgen.Stmt
		for i := 0; ; i++ {
			s = cqlgen.Gen(rt, cqlgen.Opts{PlantPct: 0, Neutral: false})
			if len(s.Slots) > 0 || i > 20 {
				break
			}
		}
		if len(s.Slots) == 0 {
			c := c06Case{Text: s.Text(), Want: "true", Why: s.Kind}
			rec.Case("", "metamorphic:no-slot")
			return c
		}
		i := rapid.IntRange(0, len(s.Slots)-1).Draw(rt, "slot")
		m := cqlgen.PlantInto(rt, s, i)
		// the pair: base must be true (checked as a variant-free case first), mutant must be false
		if f := c06Check(c06Case{Text: s.Text(), Want: "true", Why: s.Kind}); f != nil {
			rec.Case("", "metamorphic:base-rejected")
			return c06Case{Text: s.Text(), Want: "true", Why: s.Kind}
		}
		c := c06Case{Text: m.Text(), Want: "false", Planted: m.Planted, Variants: c06Respellings(rt, m, 2)}
		ctx := s.Slots[i].Ctx
		if j := strings.LastIndex(ctx, ">"); j >= 0 {
			ctx = "nested>" + ctx[j+1:]
		}
		rec.Case("M:"+m.Shape(), append(c06Labels(m), "metamorphic", "slotctx:"+ctx)...)
		return c
	}, c06Check)

	// (c) SELECT is always idempotent, whatever follows
	runProp(t, rec, "select", perShard(evid.Pick(1000, 50000)), func(rt *rapid.T) c06Case {
		s := cqlgen.Gen(rt, cqlgen.Opts{PlantPct: 30, MaxPlant: 2, Neutral: true, Kind: "update"})
		txt := "SELECT " + rapid.SampledFrom([]string{"*", "a, b", "now()", "count(*)", "JSON a", "DISTINCT k", "writetime(v)"}).Draw(rt, "sel") + " FROM " +
			rapid.SampledFrom([]string{"t", "ks.t", "system.local", `"Ks"."T"`}).Draw(rt, "tbl")
		if rapid.Bool().Draw(rt, "tail") {
			// a WHERE clause taken from a generated UPDATE
			if i := strings.Index(s.Text(), " WHERE "); i >= 0 {
				txt += s.Text()[i:]
			}
		}
		sel := &cqlgen.Stmt{}
		for _, w := range strings.Fields(txt) {
			sel.Toks = append(sel.Toks, cqlgen.Tok{Text: w})
		}
		sel.Toks[0].Kind = cqlgen.TkKeyword
		c := c06Case{Text: txt, Want: "true", Why: "select", Variants: []string{strings.ToLower(txt[:6]) + txt[6:] + ";", "\n" + txt + " ;\r\n"}}
		rec.Case("", "kind:select")
		return c
	}, c06Check)

	// (d0) very deep nesting (within the 16 MiB the proxy accepts as one frame): must terminate without crashing
	runEnum(t, rec, "deep", func(yield func(c06Case) bool) {
		shard, shards := evid.Shard()
		i := 0
		for _, open := range []string{"[", "(", "{", "f(", "{a:", "[{(f("} {
			for _, prefix := range []string{"INSERT INTO t (a) VALUES (", "UPDATE t SET a = ", "DELETE FROM t WHERE a = ", "DELETE FROM t WHERE ", "BEGIN BATCH UPDATE t SET a = 1 WHERE b IN ("} {
				i++
				if i%shards != shard {
					continue
				}
				n := 15 << 20
				if !evid.Thorough() && i%3 != 0 {
					n = 1 << 20
				}
				c := c06Case{Text: prefix + strings.Repeat(open, n/len(open)), Want: "false", Planted: []string{"unparseable:deep-nesting"}, Why: "deep-nesting"}
				rec.Case(fmt.Sprintf("deep:%s:%s:%d", prefix, open, n), "deep-nesting")
				if !yield(c) {
					return
				}
			}
		}
	}, func(c c06Case) *evid.Fail {
		f := c06Check(c)
		if f != nil {
			f.Msg = trunc(f.Msg)
		}
		return f
	})

	// (e) wide statements: many sibling terms at one nesting level (column/value lists, IN lists, collection literals,
	// SET lists, textual batches). Width is not depth: they are plain, so idempotent, unless one of the siblings is
	// a planted now()/uuid().
	runProp(t, rec, "wide", perShard(evid.Pick(600, 40000)), func(rt *rapid.T) c06Case {
		n := rapid.IntRange(2, 700).Draw(rt, "width")
		if rapid.Bool().Draw(rt, "aroundlimit") {
			n = rapid.IntRange(120, 140).Draw(rt, "widthnearlimit")
		}
		plant := -1
		if rapid.IntRange(0, 2).Draw(rt, "planted") == 0 {
			plant = rapid.IntRange(0, n-1).Draw(rt, "plantat")
		}
		term := func(i int) string {
			if i == plant {
				return rapid.SampledFrom([]string{"now()", "uuid()", "system.now()", "NOW ( )"}).Draw(rt, "call")
			}
			return rapid.SampledFrom([]string{"%d", "'s%d'", "?", ":p%d", "0x0%d", "%d.5", "-%d"}).Draw(rt, "lit")
		}
		item := func(i int) string {
			f := term(i)
			if strings.Contains(f, "%d") {
				return fmt.Sprintf(f, i)
			}
			return f
		}
		var sb strings.Builder
		shape := rapid.SampledFrom([]string{"values", "in", "set-literal", "list-literal", "map-literal", "set-list", "tuple", "batch", "relations", "tuple-relations", "batch-tuple-relations"}).Draw(rt, "shape")
		switch shape {
		case "values":
			sb.WriteString("INSERT INTO ks.t (")
			for i := 0; i < n; i++ {
				fmt.Fprintf(&sb, "c%d%s", i, map[bool]string{true: ", ", false: ""}[i < n-1])
			}
			sb.WriteString(") VALUES (")
			for i := 0; i < n; i++ {
				sb.WriteString(item(i) + map[bool]string{true: ", ", false: ""}[i < n-1])
			}
			sb.WriteString(")")
		case "in":
			sb.WriteString("UPDATE ks.t SET v = 1 WHERE k IN (")
			for i := 0; i < n; i++ {
				sb.WriteString(item(i) + map[bool]string{true: ", ", false: ""}[i < n-1])
			}
			sb.WriteString(")")
		case "set-literal", "list-literal", "tuple":
			open, cl := map[string]string{"set-literal": "{", "list-literal": "[", "tuple": "("}[shape], map[string]string{"set-literal": "}", "list-literal": "]", "tuple": ")"}[shape]
			sb.WriteString("INSERT INTO ks.t (k, c) VALUES (1, " + open)
			for i := 0; i < n; i++ {
				sb.WriteString(item(i) + map[bool]string{true: ", ", false: ""}[i < n-1])
			}
			sb.WriteString(cl + ")")
		case "map-literal":
			sb.WriteString("UPDATE ks.t SET m = {")
			for i := 0; i < n; i++ {
				fmt.Fprintf(&sb, "%d: %s%s", i, item(i), map[bool]string{true: ", ", false: ""}[i < n-1])
			}
			sb.WriteString("} WHERE k = 1")
		case "set-list":
			sb.WriteString("UPDATE ks.t SET ")
			for i := 0; i < n; i++ {
				fmt.Fprintf(&sb, "c%d = %s%s", i, item(i), map[bool]string{true: ", ", false: ""}[i < n-1])
			}
			sb.WriteString(" WHERE k = 1")
		case "relations": // many ANDed relations of every shape
			sb.WriteString("DELETE FROM ks.t WHERE ")
			for i := 0; i < n; i++ {
				fmt.Fprintf(&sb, "c%d = %s%s", i, item(i), map[bool]string{true: " AND ", false: ""}[i < n-1])
			}
		case "tuple-relations": // multi-column relations
			sb.WriteString("UPDATE ks.t SET v = 1 WHERE ")
			for i := 0; i < n; i++ {
				fmt.Fprintf(&sb, "(a%d, b%d) = (%s, %d)%s", i, i, item(i), i, map[bool]string{true: " AND ", false: ""}[i < n-1])
			}
		case "batch-tuple-relations":
			sb.WriteString("BEGIN UNLOGGED BATCH ")
			for i := 0; i < n; i++ {
				fmt.Fprintf(&sb, "DELETE FROM ks.t WHERE id = %d AND (day, seq) IN ((%s, %d)); ", i, item(i), i)
			}
			sb.WriteString("APPLY BATCH")
		case "batch":
			sb.WriteString("BEGIN BATCH ")
			for i := 0; i < n; i++ {
				fmt.Fprintf(&sb, "INSERT INTO ks.t (k, v) VALUES (%d, %s); ", i, item(i))
			}
			sb.WriteString("APPLY BATCH")
		}
		c := c06Case{Text: sb.String(), Want: "true", Why: "wide:" + shape, Variants: []string{sb.String() + ";", strings.ToLower(sb.String())}}
		if plant >= 0 {
			c.Want, c.Planted = "false", []string{"now()@wide-" + shape}
		}
		rec.Case(fmt.Sprintf("W:%s:%d:%d", shape, n, plant), "wide:"+shape, map[bool]string{true: "wide:planted", false: "wide:plain"}[plant >= 0], map[bool]string{true: "wide:>128", false: "wide:<=128"}[n > 128])
		if rec.Evals()%200 == 0 && n < 12 {
			rec.Sample(c)
		}
		return c
	}, func(c c06Case) *evid.Fail {
		f := c06Check(c)
		if f != nil {
			f.Msg = trunc(f.Msg)
		}
		return f
	})

	// (d) totality on arbitrary input
	runProp(t, rec, "arbitrary", perShard(evid.Pick(80000, 3200000)), func(rt *rapid.T) c06Case {
		txt := c06Arbitrary(rt)
		c := c06Case{Text: txt, Want: "total"}
		lw := leadingWord(txt)
		key := ""
		if lw == "insert" || lw == "update" || lw == "delete" || lw == "begin" {
			key = "A:" + txt // reaches the statement parsers
		}
		rec.Case(key, "arbitrary:"+map[bool]string{true: "dml-prefix", false: "other"}[key != ""])
		if rec.Evals()%4096 == 0 {
			rec.Sample(map[string]interface{}{"arbitrary": fmt.Sprintf("%q", txt)})
		}
		return c
	}, c06Check)
}

// FuzzC06 is the coverage-guided totality target (thorough tier, ./run C06 thorough).
func FuzzC06(f *testing.F) {
	for _, s := range []string{
		"INSERT INTO ks.t (k, v) VALUES (1, {system.now()})", "UPDATE t SET v = v + [1] WHERE k = 1", "DELETE v[0] FROM t WHERE k = 1 IF EXISTS",
		"BEGIN UNLOGGED BATCH INSERT INTO t (a) VALUES (1); APPLY BATCH", "UPDATE t USING TTL ? SET m['k'] = (int) 1 WHERE (a, b) IN ((1,2))",
		"INSERT INTO t JSON '{}' DEFAULT UNSET", "'", "\"", "$", "-", "0x", "1.e", "P1Y", "{", "INSERT INTO t (a) VALUES ({a: {b: [(1, 'x')]}})",
	} {
		f.Add(s)
	}
	f.Fuzz(func(t *testing.T, q string) {
		c := c06Case{Text: q, Want: "total", Variants: []string{q + ";", " " + q}}
		if f := safely(c06Check, c); f != nil && f.Sig != "spelling-unstable" {
			fuzzFail("C06", "arbitrary", c, f)
			t.Fatalf("%v", f)
		}
	})
}
