// Package wire splits a native-protocol byte stream into frames using only the 9-byte
// header, and (de)compresses bodies with the reference library's lz4/snappy framing. It
// never uses the proxy's own codecs.
package wire

import (
	"bytes"
	"encoding/binary"
	"fmt"
	"io"
	"strings"
	"sync/atomic"

	"github.com/datastax/go-cassandra-native-protocol/compression/lz4"
	"github.com/datastax/go-cassandra-native-protocol/compression/snappy"
	"github.com/datastax/go-cassandra-native-protocol/frame"
	"github.com/datastax/go-cassandra-native-protocol/message"
	"github.com/datastax/go-cassandra-native-protocol/primitive"
	pierrec "github.com/pierrec/lz4/v4"
)

const (
	FlagCompressed    = 0x01
	FlagTracing       = 0x02
	FlagCustomPayload = 0x04
	FlagWarning       = 0x08
	FlagBeta          = 0x10
)

// Frame is a frame as seen on the wire.
type Frame struct {
	VersionByte byte // including the direction bit 0x80
	Flags       byte
	Stream      int16
	Op          byte
	Body        []byte // exactly as on the wire (compressed if FlagCompressed)
	// ForceV3Layout renders a 9-byte header even for version bytes below 3 (hostile input)
	ForceV3Layout bool `json:"-"`
}

func (f *Frame) Version() primitive.ProtocolVersion {
	return primitive.ProtocolVersion(f.VersionByte & 0x7f)
}
func (f *Frame) IsResponse() bool { return f.VersionByte&0x80 != 0 }

// Bytes renders the frame. Protocol versions 1 and 2 have an 8-byte header with a one-byte stream id.
func (f *Frame) Bytes() []byte {
	if f.VersionByte&0x7f < 3 && !f.ForceV3Layout {
		out := make([]byte, 8+len(f.Body))
		out[0], out[1], out[2], out[3] = f.VersionByte, f.Flags, byte(f.Stream), f.Op
		binary.BigEndian.PutUint32(out[4:], uint32(len(f.Body)))
		copy(out[8:], f.Body)
		return out
	}
	out := make([]byte, 9+len(f.Body))
	out[0], out[1] = f.VersionByte, f.Flags
	binary.BigEndian.PutUint16(out[2:], uint16(f.Stream))
	out[4] = f.Op
	binary.BigEndian.PutUint32(out[5:], uint32(len(f.Body)))
	copy(out[9:], f.Body)
	return out
}

// MaxBody bounds what Read will allocate (the harness never sends more).
const MaxBody = 64 << 20

func Read(r io.Reader) (*Frame, error) {
	var h [9]byte
	if _, err := io.ReadFull(r, h[:1]); err != nil {
		return nil, err
	}
	var f *Frame
	var n uint32
	if h[0]&0x7f < 3 { // v1/v2 layout: version flags stream(1) opcode length(4)
		if _, err := io.ReadFull(r, h[1:8]); err != nil {
			return nil, err
		}
		n = binary.BigEndian.Uint32(h[4:8])
		f = &Frame{VersionByte: h[0], Flags: h[1], Stream: int16(int8(h[2])), Op: h[3]}
	} else {
		if _, err := io.ReadFull(r, h[1:9]); err != nil {
			return nil, err
		}
		n = binary.BigEndian.Uint32(h[5:9])
		f = &Frame{VersionByte: h[0], Flags: h[1], Stream: int16(binary.BigEndian.Uint16(h[2:])), Op: h[4]}
	}
	if n > MaxBody {
		return nil, fmt.Errorf("frame declares %d body bytes", n)
	}
	f.Body = make([]byte, n)
	if _, err := io.ReadFull(r, f.Body); err != nil {
		return nil, err
	}
	return f, nil
}

// Lz4Excluded counts bodies whose regular LZ4 encoding is valid (an independent decoder
// reproduces the input) but is rejected by the LZ4 block decoder the proxy links
// (github.com/pierrec/lz4/v4 v4.0.3, amd64 assembly) - known finding C03/lz4-decoder. Such
// bodies are sent as a literals-only LZ4 block instead, so that the search continues.
var Lz4Excluded int64

// Lz4Incompressible counts bodies for which the reference compressor produced no valid block at all
// (incompressible input); they are sent as a literals-only block as well.
var Lz4Incompressible int64

// Lz4Raw makes Compress skip the exclusion (used to demonstrate the known finding).
var Lz4Raw int32

func Compress(alg string, plain []byte) ([]byte, error) {
	var out bytes.Buffer
	var err error
	switch strings.ToLower(alg) {
	case "lz4":
		err = lz4.Compressor{}.CompressWithLength(bytes.NewReader(plain), &out)
		if err == nil && len(plain) > 0 && atomic.LoadInt32(&Lz4Raw) == 0 {
			b := out.Bytes()
			dst := make([]byte, len(plain))
			if n, derr := pierrec.UncompressBlock(b[4:], dst); derr != nil || n != len(plain) {
				if ref, rerr := Lz4DecodeRef(b[4:]); rerr == nil && bytes.Equal(ref, plain) {
					atomic.AddInt64(&Lz4Excluded, 1)
					return Lz4Literals(plain), nil
				}
				// the reference compressor writes an empty block when the input is incompressible
				// (pierrec's CompressBlock returns 0 then): not a block at all
				atomic.AddInt64(&Lz4Incompressible, 1)
				return Lz4Literals(plain), nil
			}
		}
	case "snappy":
		err = snappy.Compressor{}.CompressWithLength(bytes.NewReader(plain), &out)
	default:
		return nil, fmt.Errorf("unknown compression %q", alg)
	}
	return out.Bytes(), err
}

// Lz4Literals encodes plain as a single literals-only LZ4 sequence with Cassandra's length prefix.
func Lz4Literals(plain []byte) []byte {
	out := make([]byte, 4, len(plain)+16)
	binary.BigEndian.PutUint32(out, uint32(len(plain)))
	l := len(plain)
	if l < 15 {
		out = append(out, byte(l<<4))
	} else {
		out = append(out, 0xF0)
		for r := l - 15; ; r -= 255 {
			if r < 255 {
				out = append(out, byte(r))
				break
			}
			out = append(out, 255)
		}
	}
	return append(out, plain...)
}

// Lz4DecodeRef is a straightforward LZ4 block decoder written from the format description.
func Lz4DecodeRef(src []byte) ([]byte, error) {
	var dst []byte
	i := 0
	for i < len(src) {
		tok := src[i]
		i++
		ll := int(tok >> 4)
		if ll == 15 {
			for {
				if i >= len(src) {
					return nil, fmt.Errorf("lz4: truncated literal length")
				}
				b := src[i]
				i++
				ll += int(b)
				if b != 255 {
					break
				}
			}
		}
		if i+ll > len(src) {
			return nil, fmt.Errorf("lz4: truncated literals")
		}
		dst = append(dst, src[i:i+ll]...)
		i += ll
		if i >= len(src) {
			break
		}
		if i+2 > len(src) {
			return nil, fmt.Errorf("lz4: truncated offset")
		}
		off := int(src[i]) | int(src[i+1])<<8
		i += 2
		ml := int(tok & 15)
		if ml == 15 {
			for {
				if i >= len(src) {
					return nil, fmt.Errorf("lz4: truncated match length")
				}
				b := src[i]
				i++
				ml += int(b)
				if b != 255 {
					break
				}
			}
		}
		ml += 4
		if off == 0 || off > len(dst) {
			return nil, fmt.Errorf("lz4: bad offset")
		}
		for k := 0; k < ml; k++ {
			dst = append(dst, dst[len(dst)-off])
		}
	}
	return dst, nil
}

func Decompress(alg string, wire []byte) ([]byte, error) {
	var out bytes.Buffer
	var err error
	switch strings.ToLower(alg) {
	case "lz4":
		// own implementation honouring the length prefix: the reference library's lz4
		// decompressor gives up on bodies that compress better than 8:1
		if len(wire) < 4 {
			return nil, fmt.Errorf("lz4 body shorter than its length prefix")
		}
		n := binary.BigEndian.Uint32(wire)
		if n == 0 {
			return []byte{}, nil
		}
		if n > MaxBody*4 {
			return nil, fmt.Errorf("lz4 body declares %d decompressed bytes", n)
		}
		dst, derr := Lz4DecodeRef(wire[4:])
		if derr != nil {
			return nil, derr
		}
		if len(dst) != int(n) {
			return nil, fmt.Errorf("lz4 body decompresses to %d bytes, declared %d", len(dst), n)
		}
		return dst, nil
	case "snappy":
		err = snappy.Compressor{}.DecompressWithLength(bytes.NewReader(wire), &out)
	default:
		return nil, fmt.Errorf("unknown compression %q", alg)
	}
	return out.Bytes(), err
}

// Plain returns the uncompressed body; alg is the connection's negotiated algorithm.
func (f *Frame) Plain(alg string) ([]byte, error) {
	if f.Flags&FlagCompressed == 0 {
		return f.Body, nil
	}
	if alg == "" {
		return nil, fmt.Errorf("compressed flag on a connection without compression")
	}
	return Decompress(alg, f.Body)
}

var Ref = frame.NewRawCodec()

// Decode decodes the (plain) body with the reference codec.
func (f *Frame) Decode(alg string) (*frame.Body, error) {
	plain, err := f.Plain(alg)
	if err != nil {
		return nil, err
	}
	hdr := &frame.Header{IsResponse: f.IsResponse(), Version: f.Version(), Flags: primitive.HeaderFlag(f.Flags &^ FlagCompressed),
		StreamId: f.Stream, OpCode: primitive.OpCode(f.Op), BodyLength: int32(len(plain))}
	return Ref.DecodeBody(hdr, bytes.NewReader(plain))
}

// EncodeBody encodes an uncompressed body (tracing id / warnings / payload + message) with
// the reference codec and returns it with the header flags it implies.
func EncodeBody(v primitive.ProtocolVersion, b *frame.Body, response bool) ([]byte, byte, error) {
	hdr := &frame.Header{IsResponse: response, Version: v, OpCode: b.Message.GetOpCode()}
	if b.TracingId != nil {
		hdr.Flags = hdr.Flags.Add(primitive.HeaderFlagTracing)
	}
	if b.CustomPayload != nil {
		hdr.Flags = hdr.Flags.Add(primitive.HeaderFlagCustomPayload)
	}
	if b.Warnings != nil {
		hdr.Flags = hdr.Flags.Add(primitive.HeaderFlagWarning)
	}
	var buf bytes.Buffer
	if err := Ref.EncodeBody(hdr, b, &buf); err != nil {
		return nil, 0, err
	}
	return buf.Bytes(), byte(hdr.Flags), nil
}

// Build makes a wire frame from a plain body, compressing it when alg != "".
func Build(v primitive.ProtocolVersion, response bool, flags byte, stream int16, op primitive.OpCode, plain []byte, alg string) (*Frame, error) {
	f := &Frame{VersionByte: byte(v), Flags: flags &^ FlagCompressed, Stream: stream, Op: byte(op), Body: plain}
	if response {
		f.VersionByte |= 0x80
	}
	if alg != "" {
		c, err := Compress(alg, plain)
		if err != nil {
			return nil, err
		}
		f.Body = c
		f.Flags |= FlagCompressed
	}
	return f, nil
}

// Msg builds a frame carrying msg (no extra header flags).
func Msg(v primitive.ProtocolVersion, response bool, stream int16, msg message.Message, alg string) (*Frame, error) {
	plain, flags, err := EncodeBody(v, &frame.Body{Message: msg}, response)
	if err != nil {
		return nil, err
	}
	return Build(v, response, flags, stream, msg.GetOpCode(), plain, alg)
}
