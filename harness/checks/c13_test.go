package checks

import (
	"fmt"
	"strings"
	"sync"
	"testing"
	"time"

	"github.com/datastax/go-cassandra-native-protocol/message"
	"github.com/datastax/go-cassandra-native-protocol/primitive"
	"pgregory.net/rapid"

	"verif/harness/evid"
	"verif/harness/fakecass"
	"verif/harness/protogen"
	"verif/harness/rawcli"
	"verif/harness/wire"
)

// ---- C13: handshake, version negotiation and compression selection are answered locally ----

var c13Known = map[int]bool{2: true, 3: true, 4: true, 5: true, 65: true, 66: true}

var c13Opcodes = []primitive.OpCode{primitive.OpCodeStartup, primitive.OpCodeOptions, primitive.OpCodeQuery, primitive.OpCodePrepare, primitive.OpCodeExecute,
	primitive.OpCodeRegister, primitive.OpCodeBatch, primitive.OpCodeAuthResponse}

// one environment per max-version setting, shared by the gate probes (they do not change proxy state)
var (
	c13Envs  = map[int]*env{}
	c13EnvMu sync.Mutex
)

func c13Env(maxV int) (*env, error) {
	c13EnvMu.Lock()
	defer c13EnvMu.Unlock()
	if e, ok := c13Envs[maxV]; ok {
		return e, nil
	}
	ctl := primitive.ProtocolVersion4
	if primitive.ProtocolVersion(maxV) < ctl {
		ctl = primitive.ProtocolVersion(maxV)
	}
	// no heartbeats during the run: OPTIONS frames at the backend then only come from forwarding
	e, err := startEnv(envOpts{Hosts: 1, NumConns: 1, Version: ctl, MaxVersion: primitive.ProtocolVersion(maxV), Keyspaces: []string{"ks1"}, HeartBeat: time.Hour, Idle: 2 * time.Hour})
	if err == nil {
		c13Envs[maxV] = e
	}
	return e, err
}

// backendHandshakeFrames counts STARTUP/OPTIONS/REGISTER frames the fake backends have seen.
func backendHandshakeFrames(cl *fakecass.Cluster) int {
	n := 0
	for _, a := range []primitive.OpCode{primitive.OpCodeStartup, primitive.OpCodeOptions, primitive.OpCodeRegister, primitive.OpCodeAuthResponse} {
		n += cl.UntokenisedCount(byte(a))
	}
	return n
}

type c13Gate struct {
	MaxVersion  int  `json:"max_version"`
	VersionByte int  `json:"version_byte"` // 0..255: direction bit included
	Op          int  `json:"opcode"`
	V3Layout    bool `json:"v3_layout,omitempty"` // send a 9-byte header even for version bytes < 3
	// Embedded (unknown version bytes only): the two bytes (version, flags) are followed at once by a complete,
	// valid v4 QUERY frame. Read as one frame of the unknown version, the QUERY's bytes lie inside its header and
	// declared body; a proxy that answers the error and resumes parsing behind the version check would forward them.
	Embedded bool `json:"embedded_valid_frame,omitempty"`
}

func c13Body(op primitive.OpCode, token string) []byte {
	v := primitive.ProtocolVersion4
	var m message.Message
	switch op {
	case primitive.OpCodeStartup:
		m = &message.Startup{Options: map[string]string{"CQL_VERSION": "3.0.0"}}
	case primitive.OpCodeOptions:
		m = &message.Options{}
	case primitive.OpCodeQuery:
		m = &message.Query{Query: "SELECT * FROM ks1.t WHERE k = '" + token + "'", Options: &message.QueryOptions{Consistency: primitive.ConsistencyLevelOne}}
	case primitive.OpCodePrepare:
		m = &message.Prepare{Query: "SELECT * FROM ks1.t WHERE k = '" + token + "'"}
	case primitive.OpCodeExecute:
		m = &message.Execute{QueryId: []byte(token), Options: &message.QueryOptions{Consistency: primitive.ConsistencyLevelOne}}
	case primitive.OpCodeRegister:
		m = &message.Register{EventTypes: []primitive.EventType{primitive.EventTypeSchemaChange}}
	case primitive.OpCodeBatch:
		m = &message.Batch{Children: []*message.BatchChild{{Query: "INSERT INTO ks1.t (k) VALUES ('" + token + "')"}}, Consistency: primitive.ConsistencyLevelOne}
	case primitive.OpCodeAuthResponse:
		m = &message.AuthResponse{Token: []byte(token)}
	default:
		return []byte(token)
	}
	b, _ := protogen.EncodeMessage(v, m)
	return b
}

func c13GateCheck(c c13Gate) *evid.Fail {
	e, err := c13Env(c.MaxVersion)
	if err != nil {
		return evid.Failf("harness-env", "%v", err)
	}
	cl, err := rawcli.Dial(e.Addr)
	if err != nil {
		return evid.Failf("harness-client", "%v", err)
	}
	defer cl.Close()
	vb := byte(c.VersionByte)
	ver := int(vb & 0x7f)
	response := vb&0x80 != 0
	maxV := c.MaxVersion
	tok := nextToken()
	before := backendHandshakeFrames(e.Cluster)
	f := &wire.Frame{VersionByte: vb, Stream: 9, Op: byte(c.Op), Body: c13Body(primitive.OpCode(c.Op), tok), ForceV3Layout: c.V3Layout}
	if c.Embedded && !c13Known[ver] {
		inner := &wire.Frame{VersionByte: 4, Stream: 9, Op: byte(primitive.OpCodeQuery), Body: c13Body(primitive.OpCodeQuery, tok)}
		if err := cl.Send(append([]byte{vb, 0x00}, inner.Bytes()...)); err != nil {
			return evid.Failf("harness-send", "%v", err)
		}
	} else if err := cl.SendFrame(f); err != nil {
		return evid.Failf("harness-send", "%v", err)
	}
	where := fmt.Sprintf("version byte %#x opcode %d under max-version %s", vb, c.Op, protogen.VersionName(primitive.ProtocolVersion(maxV)))
	inGate := c13Known[ver] && ver >= 3 && ver <= maxV && !response
	knownOutside := c13Known[ver] && !(ver >= 3 && ver <= maxV) && !response && !(ver < 3 && c.V3Layout)
	notForwarded := func() *evid.Fail {
		if as := e.Cluster.Attempts(tok); len(as) > 0 {
			return evid.Failf("gate-forwarded", "frame with %s reached a backend", where)
		}
		return nil
	}
	switch {
	case knownOutside:
		stallReset()
		r := cl.WaitStream(9, 0, 1, posWait)
		if r == nil {
			if stalled(posWait) {
				return evid.Failf("harness-stall", "stalled")
			}
			if cl.PeerClosed() {
				return evid.Failf("gate-closed-known-version", "connection closed instead of a protocol error for %s", where)
			}
			return evid.Failf("gate-no-error", "no reply to %s", where)
		}
		b, err := r.F.Decode("")
		if err != nil {
			return evid.Failf("gate-undecodable", "reply to %s cannot be decoded: %v", where, err)
		}
		pe, ok := b.Message.(*message.ProtocolError)
		if !ok {
			return evid.Failf("gate-not-protocol-error:op"+fmt.Sprint(c.Op), "%s answered with %v instead of a protocol error", where, b.Message)
		}
		if !strings.Contains(pe.ErrorMessage, fmt.Sprint(ver)) {
			return evid.Failf("gate-error-lacks-version", "protocol error for %s does not name the version: %q", where, pe.ErrorMessage)
		}
		// the connection stays usable: a frame of an accepted version is served
		if _, err := fenceAt(cl, primitive.ProtocolVersion(minInt(maxV, 4))); err != nil {
			return evid.Failf("gate-connection-unusable", "after the protocol error for %s the connection does not serve a valid frame: %v", where, err)
		}
		cl.Quiesce(3*time.Millisecond, 100*time.Millisecond)
		n := 0
		for _, fr := range cl.Frames() {
			if fr.F.Stream == 9 {
				n++
			}
		}
		if n != 1 {
			return evid.Failf("gate-reply-count", "%d frames on the stream of the rejected frame (%s)", n, where)
		}
		if f := notForwarded(); f != nil {
			return f
		}
	case !inGate:
		// unknown version byte (or wrong direction): the same error or a closed connection
		// (a short wait: nothing is owed here; what matters is what must NOT happen)
		deadline := time.Now().Add(250 * time.Millisecond)
		for cl.NumFrames() == 0 && !cl.PeerClosed() {
			if time.Now().After(deadline) {
				// neither answered nor closed: tolerated only if the proxy is legitimately waiting for more bytes
				// (an unknown version byte below 3 implies the 8-byte header layout of v1/v2)
				break
			}
			time.Sleep(200 * time.Microsecond)
		}
		cl.Quiesce(3*time.Millisecond, 50*time.Millisecond)
		for _, fr := range cl.Frames() {
			if primitive.OpCode(fr.F.Op) != primitive.OpCodeError {
				return evid.Failf("gate-served-unknown-version:op"+fmt.Sprint(c.Op), "%s was answered with opcode %d instead of an error or a closed connection", where, fr.F.Op)
			}
		}
		if f := notForwarded(); f != nil {
			return f
		}
	default:
		// inside the gate: exactly one reply
		stallReset()
		r := cl.WaitStream(9, 0, 1, posWait)
		if r == nil && !cl.PeerClosed() {
			if stalled(posWait) {
				return evid.Failf("harness-stall", "stalled")
			}
			return evid.Failf("ingate-no-reply", "no reply to %s", where)
		}
		if r != nil {
			switch primitive.OpCode(c.Op) {
			case primitive.OpCodeOptions:
				if primitive.OpCode(r.F.Op) != primitive.OpCodeSupported {
					return evid.Failf("options-reply", "OPTIONS (%s) answered with opcode %d", where, r.F.Op)
				}
			case primitive.OpCodeStartup, primitive.OpCodeRegister:
				if primitive.OpCode(r.F.Op) != primitive.OpCodeReady {
					return evid.Failf("handshake-reply", "opcode %d (%s) answered with opcode %d", c.Op, where, r.F.Op)
				}
			}
		}
	}
	switch primitive.OpCode(c.Op) {
	case primitive.OpCodeStartup, primitive.OpCodeOptions, primitive.OpCodeRegister, primitive.OpCodeAuthResponse:
		if after := backendHandshakeFrames(e.Cluster); after != before && !inGateForwardable(c) {
			// no session can have been created by this probe (nothing forwardable was sent)
			return evid.Failf("handshake-forwarded", "a handshake frame (%s) coincided with %d new handshake frames at the backend", where, after-before)
		}
	}
	return nil
}

func inGateForwardable(c c13Gate) bool {
	switch primitive.OpCode(c.Op) {
	case primitive.OpCodeQuery, primitive.OpCodePrepare, primitive.OpCodeExecute, primitive.OpCodeBatch:
		return true
	}
	return false
}

func minInt(a, b int) int {
	if a < b {
		return a
	}
	return b
}

func fenceAt(cl *rawcli.Client, v primitive.ProtocolVersion) (*rawcli.Recv, error) {
	r, err := cl.Fence(v, posWait)
	if err != nil {
		return nil, err
	}
	if primitive.OpCode(r.F.Op) != primitive.OpCodeSupported {
		return nil, fmt.Errorf("OPTIONS answered with opcode %d", r.F.Op)
	}
	return r, nil
}

// ---- pipelined handshake: STARTUP and the first requests leave the client in one write ----

type c13Pipe struct {
	MaxVersion  int    `json:"max_version"`
	Version     int    `json:"version"`
	Compression string `json:"compression"` // as spelled in STARTUP ("" = none)
	Options     int    `json:"options_before"`
	Queries     []bool `json:"queries_compressed"`      // one entry per pipelined query: sent compressed?
	After       []bool `json:"options_after,omitempty"` // OPTIONS frames (empty body) after the queries: sent with the compressed flag?
}

func c13PipeCheck(c c13Pipe) *evid.Fail {
	ctl := primitive.ProtocolVersion4
	if primitive.ProtocolVersion(c.MaxVersion) < ctl {
		ctl = primitive.ProtocolVersion(c.MaxVersion)
	}
	e, err := startEnv(envOpts{Hosts: 1, NumConns: 1, Version: ctl, MaxVersion: primitive.ProtocolVersion(c.MaxVersion), Keyspaces: []string{"ks1"}, HeartBeat: time.Hour, Idle: 2 * time.Hour})
	if err != nil {
		return evid.Failf("harness-env", "%v", err)
	}
	defer e.Close()
	v := primitive.ProtocolVersion(c.Version)
	cl, err := e.rawClient()
	if err != nil {
		return evid.Failf("harness-client", "%v", err)
	}
	alg := strings.ToLower(c.Compression)
	var buf []byte
	stream := int16(0)
	add := func(f *wire.Frame, err error) *evid.Fail {
		if err != nil {
			return evid.Failf("harness-build", "%v", err)
		}
		buf = append(buf, f.Bytes()...)
		return nil
	}
	for i := 0; i < c.Options; i++ {
		stream++
		if f := add(wire.Msg(v, false, stream, &message.Options{}, "")); f != nil {
			return f
		}
	}
	o := map[string]string{"CQL_VERSION": "3.0.0"}
	if c.Compression != "" {
		o["COMPRESSION"] = c.Compression
	}
	stream++
	startupStream := stream
	if f := add(wire.Msg(v, false, stream, &message.Startup{Options: o}, "")); f != nil {
		return f
	}
	toks := map[int16]string{}
	for _, compressed := range c.Queries {
		stream++
		tok := nextToken()
		toks[stream] = tok
		if f := add(buildFrame(v, stream, &message.Query{Query: "SELECT * FROM ks1.t WHERE k = '" + tok + "'", Options: &message.QueryOptions{Consistency: primitive.ConsistencyLevelOne}}, false, alg, compressed && alg != "")); f != nil {
			return f
		}
	}
	for _, compressed := range c.After {
		stream++
		if f := add(buildFrame(v, stream, &message.Options{}, false, alg, compressed && alg != "")); f != nil {
			return f
		}
	}
	if err := cl.Send(buf); err != nil {
		return evid.Failf("harness-send", "%v", err)
	}
	cl.Comp = alg
	where := fmt.Sprintf("pipelined OPTIONS x%d, STARTUP(COMPRESSION=%q), %d queries (v%d, max %d)", c.Options, c.Compression, len(c.Queries), c.Version, c.MaxVersion)
	stallReset()
	if !cl.WaitN(int(stream), posWait) {
		if stalled(posWait) {
			return evid.Failf("harness-stall", "stalled")
		}
		return evid.Failf("pipelined-no-reply", "%s: %d of %d frames answered (peer closed=%v)", where, cl.NumFrames(), stream, cl.PeerClosed())
	}
	cl.Quiesce(3*time.Millisecond, 60*time.Millisecond)
	seen := map[int16]int{}
	for _, fr := range cl.Frames() {
		seen[fr.F.Stream]++
		switch {
		case fr.F.Stream == startupStream:
			if primitive.OpCode(fr.F.Op) != primitive.OpCodeReady {
				return evid.Failf("pipelined-startup-reply", "%s: STARTUP answered with opcode %d", where, fr.F.Op)
			}
		case toks[fr.F.Stream] != "":
			b, err := cl.Decode(fr)
			if err != nil {
				return evid.Failf("pipelined-undecodable", "%s: answer on stream %d cannot be decoded with %q: %v", where, fr.F.Stream, alg, err)
			}
			ei, ok := parseEcho(b.Message)
			if !ok || ei.Tok != toks[fr.F.Stream] {
				return evid.Failf("pipelined-query-failed", "%s: query on stream %d answered with %v", where, fr.F.Stream, b.Message)
			}
			if ei.Comp != alg {
				return evid.Failf("pipelined-wrong-compression", "%s: the query ran on a backend connection with compression %q", where, ei.Comp)
			}
		default:
			if primitive.OpCode(fr.F.Op) != primitive.OpCodeSupported {
				return evid.Failf("pipelined-options-reply", "%s: OPTIONS answered with opcode %d", where, fr.F.Op)
			}
		}
	}
	for st := int16(1); st <= stream; st++ {
		if seen[st] != 1 {
			return evid.Failf("pipelined-reply-count", "%s: %d frames on stream %d", where, seen[st], st)
		}
	}
	return nil
}

// ---- generated handshake sequences ----

type c13Step struct {
	Op          string   `json:"op"` // options | startup | register | query | gated
	Compression *string  `json:"compression,omitempty"`
	Extra       bool     `json:"extra_options,omitempty"`
	Events      []string `json:"events,omitempty"`
	GateVersion int      `json:"gate_version,omitempty"`
	Compress    bool     `json:"compress,omitempty"`
}

type c13Seq struct {
	MaxVersion int         `json:"max_version"`
	Version    int         `json:"version"`
	Clients    [][]c13Step `json:"clients"`
}

func c13SeqCheck(c c13Seq) *evid.Fail {
	ctl := primitive.ProtocolVersion4
	if primitive.ProtocolVersion(c.MaxVersion) < ctl {
		ctl = primitive.ProtocolVersion(c.MaxVersion)
	}
	e, err := startEnv(envOpts{Hosts: 1, NumConns: 1, Version: ctl, MaxVersion: primitive.ProtocolVersion(c.MaxVersion), Keyspaces: []string{"ks1"}, HeartBeat: time.Hour, Idle: 2 * time.Hour})
	if err != nil {
		return evid.Failf("harness-env", "%v", err)
	}
	defer e.Close()
	v := primitive.ProtocolVersion(c.Version)
	type cstate struct {
		cl      *rawcli.Client
		comp    string // model: negotiated algorithm (lower case)
		started bool
		stream  int16
	}
	var cs []*cstate
	for range c.Clients {
		cl, err := e.rawClient()
		if err != nil {
			return evid.Failf("harness-client", "%v", err)
		}
		cs = append(cs, &cstate{cl: cl, stream: 10})
	}
	maxLen := 0
	for _, s := range c.Clients {
		if len(s) > maxLen {
			maxLen = len(s)
		}
	}
	// clients take turns, one step each, so that their handshakes interleave
	for i := 0; i < maxLen; i++ {
		for ci, steps := range c.Clients {
			if i >= len(steps) {
				continue
			}
			st, s := cs[ci], steps[i]
			st.stream++
			stream := st.stream
			from := st.cl.NumFrames()
			before := backendHandshakeFrames(e.Cluster)
			where := fmt.Sprintf("client %d step %d %s (max %s, client version %s)", ci, i, s.Op, protogen.VersionName(primitive.ProtocolVersion(c.MaxVersion)), protogen.VersionName(v))
			expectOne := func(want primitive.OpCode) (*rawcli.Recv, *evid.Fail) {
				stallReset()
				r := st.cl.WaitStream(stream, from, 1, posWait)
				if r == nil {
					if stalled(posWait) {
						return nil, evid.Failf("harness-stall", "stalled")
					}
					return nil, evid.Failf("no-reply:"+s.Op, "%s: no reply (peer closed=%v)", where, st.cl.PeerClosed())
				}
				if _, err := st.cl.Fence(v, posWait); err != nil {
					return nil, evid.Failf("fence-failed:"+s.Op, "%s: %v", where, err)
				}
				n := 0
				for _, fr := range st.cl.Frames()[from:] {
					if fr.F.Stream == stream {
						n++
					}
				}
				if n != 1 {
					return nil, evid.Failf("reply-count:"+s.Op, "%s: %d frames on the request's stream", where, n)
				}
				if primitive.OpCode(r.F.Op) != want {
					b, _ := st.cl.Decode(r)
					return nil, evid.Failf("wrong-reply:"+s.Op, "%s: answered with opcode %d (%v), expected opcode %d", where, r.F.Op, b, want)
				}
				return r, nil
			}
			switch s.Op {
			case "options":
				_ = st.cl.SendMsg(v, stream, &message.Options{}, false)
				r, f := expectOne(primitive.OpCodeSupported)
				if f != nil {
					return f
				}
				b, err := st.cl.Decode(r)
				if err != nil {
					return evid.Failf("supported-undecodable", "%s: %v", where, err)
				}
				sup := b.Message.(*message.Supported)
				if len(sup.Options["COMPRESSION"]) == 0 || len(sup.Options["CQL_VERSION"]) == 0 {
					return evid.Failf("supported-incomplete", "%s: SUPPORTED lacks COMPRESSION/CQL_VERSION: %v", where, sup.Options)
				}
			case "startup":
				o := map[string]string{"CQL_VERSION": "3.0.0"}
				if s.Extra {
					o["DRIVER_NAME"], o["DRIVER_VERSION"], o["NO_COMPACT"] = "verif", "1.0", "true"
				}
				want := primitive.OpCodeReady
				newComp := st.comp
				if s.Compression != nil {
					o["COMPRESSION"] = *s.Compression
					lc := strings.ToLower(*s.Compression)
					if lc == "lz4" || lc == "snappy" {
						newComp = lc
					} else {
						want = primitive.OpCodeError
					}
				}
				_ = st.cl.SendMsg(v, stream, &message.Startup{Options: o}, false)
				if _, f := expectOne(want); f != nil {
					if want == primitive.OpCodeError {
						f.Sig = "unsupported-compression:" + f.Sig
					}
					return f
				}
				if want == primitive.OpCodeReady {
					st.comp, st.started = newComp, true
					st.cl.Comp = newComp
				}
			case "register":
				var ev []primitive.EventType
				for _, x := range s.Events {
					ev = append(ev, primitive.EventType(x))
				}
				if err := st.cl.SendMsg(v, stream, &message.Register{EventTypes: ev}, false); err != nil {
					continue // the reference encoder refuses it (e.g. no event type): not a well-formed frame
				}
				if _, f := expectOne(primitive.OpCodeReady); f != nil {
					return f
				}
			case "gated":
				f, _ := wire.Msg(primitive.ProtocolVersion4, false, stream, &message.Options{}, "")
				f.VersionByte = byte(s.GateVersion)
				_ = st.cl.SendFrame(f)
				r, fl := expectOne(primitive.OpCodeError)
				if fl != nil {
					return fl
				}
				b, err := r.F.Decode("")
				if err != nil {
					return evid.Failf("gate-undecodable", "%s: %v", where, err)
				}
				if pe, ok := b.Message.(*message.ProtocolError); !ok || !strings.Contains(pe.ErrorMessage, fmt.Sprint(s.GateVersion)) {
					return evid.Failf("gate-error-lacks-version", "%s: version %d rejected with %v", where, s.GateVersion, b.Message)
				}
			case "query":
				if !st.started {
					continue
				}
				tok := nextToken()
				f, err := buildFrame(v, stream, &message.Query{Query: "SELECT * FROM ks1.t WHERE k = '" + tok + "'", Options: &message.QueryOptions{Consistency: primitive.ConsistencyLevelOne}}, false, st.comp, s.Compress && st.comp != "")
				if err != nil {
					return evid.Failf("harness-build", "%v", err)
				}
				_ = st.cl.SendFrame(f)
				stallReset()
				r := st.cl.WaitStream(stream, from, 1, posWait)
				if r == nil {
					if stalled(posWait) {
						return evid.Failf("harness-stall", "stalled")
					}
					return evid.Failf("no-reply:query/"+st.comp, "%s: forwarded request on a %q connection not answered (peer closed=%v)", where, st.comp, st.cl.PeerClosed())
				}
				b, err := st.cl.Decode(r)
				if err != nil {
					return evid.Failf("response-undecodable/"+st.comp, "%s: response cannot be decoded with the client's algorithm %q: %v", where, st.comp, err)
				}
				ei, ok := parseEcho(b.Message)
				if !ok {
					return evid.Failf("query-failed/"+st.comp, "%s: forwarded request on a %q connection answered with %v", where, st.comp, b.Message)
				}
				if ei.Tok != tok || ei.Comp != st.comp || ei.Ver != int(v) {
					return evid.Failf("wrong-session", "%s: request ran on a backend connection with compression %q version %d; the client negotiated %q version %d", where, ei.Comp, ei.Ver, st.comp, int(v))
				}
				if (r.F.Flags&wire.FlagCompressed != 0) != (st.comp != "") {
					return evid.Failf("response-compression", "%s: response compressed flag is %v on a connection that negotiated %q", where, r.F.Flags&wire.FlagCompressed != 0, st.comp)
				}
				continue // forwarded: may create sessions
			}
			if after := backendHandshakeFrames(e.Cluster); after != before {
				return evid.Failf("handshake-forwarded", "%s: %d handshake frames appeared at the backend", where, after-before)
			}
		}
	}
	return nil
}

func c13GenSeq(rt *rapid.T) c13Seq {
	maxV := protogen.Version(rt)
	var accepted []primitive.ProtocolVersion
	for _, x := range protogen.Versions {
		if x <= maxV {
			accepted = append(accepted, x)
		}
	}
	v := accepted[rapid.IntRange(0, len(accepted)-1).Draw(rt, "clientversion")]
	c := c13Seq{MaxVersion: int(maxV), Version: int(v)}
	comps := []string{"lz4", "snappy", "LZ4", "Snappy", "SNAPPY", "lZ4", "zstd", "", "none", "deflate", " lz4"}
	if v == primitive.ProtocolVersion5 {
		comps = []string{"lz4", "LZ4", "lZ4", "Lz4", "zstd", "", "none", "snappyx"}
	}
	nc := rapid.IntRange(1, 2).Draw(rt, "nclients")
	for i := 0; i < nc; i++ {
		n := rapid.IntRange(1, 12).Draw(rt, "nsteps")
		var steps []c13Step
		for j := 0; j < n; j++ {
			s := c13Step{Op: rapid.SampledFrom([]string{"options", "startup", "startup", "register", "query", "query", "gated"}).Draw(rt, "step")}
			switch s.Op {
			case "startup":
				if rapid.IntRange(0, 3).Draw(rt, "hascomp") > 0 {
					cc := comps[rapid.IntRange(0, len(comps)-1).Draw(rt, "compname")]
					s.Compression = &cc
				}
				s.Extra = rapid.Bool().Draw(rt, "extra")
			case "register":
				for _, ev := range []string{"SCHEMA_CHANGE", "TOPOLOGY_CHANGE", "STATUS_CHANGE"} {
					if rapid.Bool().Draw(rt, "ev") {
						s.Events = append(s.Events, ev)
					}
				}
			case "gated":
				var outside []int
				for k := range c13Known {
					if k >= 3 && !(k <= int(maxV)) {
						outside = append(outside, k)
					}
				}
				if len(outside) == 0 {
					s.Op = "options"
				} else {
					// deterministic order
					min := outside[0]
					for _, k := range outside {
						if k < min {
							min = k
						}
					}
					s.GateVersion = min
					if rapid.Bool().Draw(rt, "othergate") {
						s.GateVersion = outside[rapid.IntRange(0, len(outside)-1).Draw(rt, "gatev")]
						// map iteration order must not leak into the case: normalise
						s.GateVersion = normaliseGate(s.GateVersion, outside)
					}
				}
			case "query":
				s.Compress = rapid.Bool().Draw(rt, "compress")
			}
			steps = append(steps, s)
		}
		c.Clients = append(c.Clients, steps)
	}
	return c
}

func normaliseGate(v int, outside []int) int {
	// pick the smallest candidate >= v, or the smallest overall (keeps the choice independent of map order)
	best := -1
	for _, k := range outside {
		if k >= v && (best < 0 || k < best) {
			best = k
		}
	}
	if best < 0 {
		for _, k := range outside {
			if best < 0 || k < best {
				best = k
			}
		}
	}
	return best
}

func TestC13(t *testing.T) {
	rec := evid.New("C13", "exploration",
		"(a) the cube (version byte 0..255 incl. direction bit) x (max-version v3,v4,v5,DSEv1,DSEv2) x (8 request opcodes), one connection per point: enumerated exhaustively in thorough, sampled in quick; "+
			"(b) generated interleaved handshake sequences of 1..2 clients (OPTIONS, STARTUP with COMPRESSION absent / lz4 / snappy in any letter case / unknown / empty and extra options, REGISTER with any event subset, frames of known versions outside the gate, forwarded requests sent compressed or not); "+
			"oracle: model of the gate (numeric wire order) and of the per-connection negotiated algorithm; exactly one SUPPORTED/READY/ERROR, nothing reaches a backend, protocol error names the version and leaves the connection usable, forwarded requests run on a backend connection with the client's algorithm and version and responses carry it; "+
			"non-trivial = a gated frame followed by a served frame, a STARTUP naming a compression, or two clients with different algorithms; distinct by case content")
	defer finish(t, rec)
	rec.SetJournalAll(true)
	rec.Assume("known versions are v2..v5, DSEv1, DSEv2 (what the protocol library accepts); v1/v2 use the 8-byte header layout",
		"'never forwarded' for handshake frames is decided by counting STARTUP/OPTIONS/REGISTER frames at the fake backends before and after a step that cannot create a session (heartbeat interval 30s)")
	defer func() {
		for _, e := range c13Envs {
			e.Close()
		}
	}()

	shard, shards := evid.Shard()
	if evid.Thorough() {
		n := 0
		runEnum(t, rec, "cube", func(yield func(c13Gate) bool) {
			for _, mv := range protogen.Versions {
				for vb := 0; vb < 256; vb++ {
					for _, op := range c13Opcodes {
						n++
						if n%shards != shard {
							continue
						}
						c := c13Gate{MaxVersion: int(mv), VersionByte: vb, Op: int(op)}
						rec.Case(fmt.Sprintf("cube:%d:%d:%d", mv, vb, op), c13GateLabel(c))
						if n%977 == 0 {
							rec.Sample(c)
						}
						if !yield(c) {
							return
						}
					}
				}
			}
		}, c13GateCheck)
		rec.SetExhaustive(false)
		rec.Extra("cube_exhaustive", true)
	}
	runProp(t, rec, "gate", perShard(evid.Pick(2400, 30000)), func(rt *rapid.T) c13Gate {
		c := c13Gate{MaxVersion: int(protogen.Version(rt)), Op: int(c13Opcodes[rapid.IntRange(0, len(c13Opcodes)-1).Draw(rt, "op")])}
		switch rapid.IntRange(0, 3).Draw(rt, "vclass") {
		case 0:
			c.VersionByte = rapid.SampledFrom([]int{2, 3, 4, 5, 65, 66}).Draw(rt, "known")
		case 1:
			c.VersionByte = rapid.IntRange(0, 127).Draw(rt, "any")
		case 2:
			c.VersionByte = rapid.IntRange(128, 255).Draw(rt, "response-bit")
		case 3:
			c.VersionByte = rapid.SampledFrom([]int{0, 1, 6, 7, 64, 67, 127}).Draw(rt, "edge")
		}
		if c.VersionByte&0x7f < 3 {
			c.V3Layout = rapid.Bool().Draw(rt, "v3layout")
		}
		if !c13Known[c.VersionByte&0x7f] && c.VersionByte&0x7f >= 3 {
			c.Embedded = rapid.Bool().Draw(rt, "embedded")
		}
		rec.Case(fmt.Sprintf("gate:%v", c), c13GateLabel(c), map[bool]string{true: "unknown-version+embedded-valid-frame", false: ""}[c.Embedded])
		rec.Sample(c)
		return c
	}, c13GateCheck)

	runProp(t, rec, "pipelined", perShard(evid.Pick(400, 30000)), func(rt *rapid.T) c13Pipe {
		maxV := protogen.Version(rt)
		var accepted []primitive.ProtocolVersion
		for _, x := range protogen.Versions {
			if x <= maxV || (x >= 65 && maxV >= x) {
				if int(x) <= int(maxV) {
					accepted = append(accepted, x)
				}
			}
		}
		v := accepted[rapid.IntRange(0, len(accepted)-1).Draw(rt, "v")]
		c := c13Pipe{MaxVersion: int(maxV), Version: int(v), Compression: rapid.SampledFrom([]string{"", "lz4", "snappy", "LZ4", "Snappy"}).Draw(rt, "comp"),
			Options: rapid.IntRange(0, 2).Draw(rt, "options"), Queries: rapid.SliceOfN(rapid.Bool(), 1, 6).Draw(rt, "queries"), After: rapid.SliceOfN(rapid.Bool(), 0, 2).Draw(rt, "after")}
		if v == primitive.ProtocolVersion5 && strings.EqualFold(c.Compression, "snappy") {
			c.Compression = "lz4"
		}
		rec.Case("pipe:"+js(c), "pipelined-handshake", "pipelined-comp:"+strings.ToLower(c.Compression))
		rec.Sample(c)
		return c
	}, c13PipeCheck)

	runProp(t, rec, "sequence", perShard(evid.Pick(1600, 150000)), func(rt *rapid.T) c13Seq {
		c := c13GenSeq(rt)
		labels := []string{"max:" + protogen.VersionName(primitive.ProtocolVersion(c.MaxVersion))}
		key := ""
		for _, steps := range c.Clients {
			gated := false
			for _, s := range steps {
				labels = append(labels, "step:"+s.Op)
				if s.Op == "startup" && s.Compression != nil {
					labels = append(labels, "compression:"+strings.TrimSpace(*s.Compression))
					key = js(c)
				}
				if s.Op == "gated" {
					gated = true
				} else if gated {
					key = js(c)
				}
			}
		}
		rec.Case(key, labels...)
		if len(c.Clients) == 1 && len(c.Clients[0]) <= 5 {
			rec.Sample(c)
		}
		return c
	}, c13SeqCheck)
}

func c13GateLabel(c c13Gate) string {
	ver := c.VersionByte & 0x7f
	switch {
	case c.VersionByte&0x80 != 0:
		return "gate:response-bit"
	case c13Known[ver] && ver >= 3 && ver <= c.MaxVersion:
		return "gate:accepted"
	case c13Known[ver]:
		return "gate:known-outside"
	}
	return "gate:unknown-version"
}
