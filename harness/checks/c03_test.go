package checks

import (
	"bytes"
	"encoding/hex"
	"fmt"
	"sync/atomic"
	"testing"

	"github.com/datastax/go-cassandra-native-protocol/datatype"
	"github.com/datastax/go-cassandra-native-protocol/frame"
	"github.com/datastax/go-cassandra-native-protocol/message"
	"github.com/datastax/go-cassandra-native-protocol/primitive"
	pierrec "github.com/pierrec/lz4/v4"
	"pgregory.net/rapid"

	"verif/harness/evid"
	"verif/harness/fakecass"
	"verif/harness/protogen"
	"verif/harness/wire"
)

// ---- C03: forwarded requests and responses are byte-transparent except for stream ids ----

type c03Req struct {
	Op       int    `json:"opcode"`
	Flags    int    `json:"flags"`    // header flags without the compressed bit
	Compress bool   `json:"compress"` // send this frame compressed (client negotiated Comp)
	Body     string `json:"body"`     // plain request body (hex)
	Token    string `json:"token"`
	RespOp   int    `json:"resp_opcode"`
	RespFlag int    `json:"resp_flags"`
	RespBody string `json:"resp_body"` // plain response body (hex)
	Note     string `json:"note,omitempty"`
}

type c03Case struct {
	MaxVersion int      `json:"max_version"`
	Version    int      `json:"version"`
	Comp       string   `json:"comp,omitempty"`
	Hosts      int      `json:"hosts"`
	Reqs       []c03Req `json:"requests"`
	RawLz4     bool     `json:"raw_lz4,omitempty"`   // do not route around the known lz4-decoder finding
	Pipelined  bool     `json:"pipelined,omitempty"` // all requests leave in one write; the answers are in flight together
}

func versionLE(a, b primitive.ProtocolVersion) bool { return a <= b } // wire order: v3<v4<v5<DSEv1<DSEv2

func c03Check(c c03Case) *evid.Fail {
	maxV, v := primitive.ProtocolVersion(c.MaxVersion), primitive.ProtocolVersion(c.Version)
	ctl := primitive.ProtocolVersion4
	if maxV < ctl {
		ctl = maxV
	}
	e, err := startEnv(envOpts{Hosts: c.Hosts, NumConns: 1, Version: ctl, MaxVersion: maxV, Keyspaces: []string{"ks1"}})
	if err != nil {
		return evid.Failf("harness-env", "%v", err)
	}
	defer e.Close()
	e.Cluster.UnpreparedAuto = false
	cl, err := e.client(v, c.Comp)
	if err != nil {
		return evid.Failf("harness-client", "%v", err)
	}
	where := fmt.Sprintf("%s/%s", protogen.VersionName(v), map[bool]string{true: c.Comp, false: "plain"}[c.Comp != ""])
	if c.RawLz4 {
		atomic.StoreInt32(&wire.Lz4Raw, 1)
		defer atomic.StoreInt32(&wire.Lz4Raw, 0)
	}
	frames := make([]*wire.Frame, len(c.Reqs))
	for i, q := range c.Reqs {
		plain, _ := hex.DecodeString(q.Body)
		out := fakecass.Outcome{Kind: "raw", RawOp: q.RespOp, RawFlags: q.RespFlag, RawBody: q.RespBody}
		e.Cluster.Script(q.Token, []fakecass.Outcome{out, out, out, out, out, out})
		alg := ""
		if q.Compress {
			alg = c.Comp
		}
		f, err := wire.Build(v, false, byte(q.Flags), int16(200+i), primitive.OpCode(q.Op), plain, alg)
		if err != nil {
			return evid.Failf("harness-build", "%v", err)
		}
		frames[i] = f
	}
	base := cl.NumFrames()
	if c.Pipelined {
		// all requests leave in one write: their responses are in flight together
		var buf []byte
		for _, f := range frames {
			buf = append(buf, f.Bytes()...)
		}
		if err := cl.Send(buf); err != nil {
			return evid.Failf("harness-send", "%v", err)
		}
	}
	for i, q := range c.Reqs {
		plain, _ := hex.DecodeString(q.Body)
		f := frames[i]
		from := base
		stallReset()
		if !c.Pipelined {
			from = cl.NumFrames()
			if err := cl.SendFrame(f); err != nil {
				return evid.Failf("harness-send", "%v", err)
			}
		}
		r := cl.WaitStream(f.Stream, from, 1, posWait)
		op := opName(primitive.OpCode(q.Op))
		if r == nil {
			if stalled(posWait) {
				return evid.Failf("harness-stall", "stalled")
			}
			if cl.PeerClosed() {
				if q.Compress && c.Comp == "lz4" && len(f.Body) > 4 {
					// is this the dependency's LZ4 decoder rejecting a valid block?
					dst := make([]byte, len(plain))
					_, perr := pierrec.UncompressBlock(f.Body[4:], dst)
					ref, rerr := wire.Lz4DecodeRef(f.Body[4:])
					if perr != nil && rerr == nil && bytes.Equal(ref, plain) {
						return evid.Failf("client-closed:lz4-valid-block-rejected-by-decoder", "proxy closed the client connection on a well-formed lz4-compressed %s frame: the LZ4 block is valid (an independent decoder reproduces the %d plain bytes) but github.com/pierrec/lz4/v4 v4.0.3 UncompressBlock rejects it (%v)", op, len(plain), perr)
					}
				}
				return evid.Failf("client-closed:"+op+"/"+protogen.VersionName(v), "proxy closed the client connection on a well-formed %s frame (%s, flags %#x, %d body bytes): %s", op, where, f.Flags, len(f.Body), q.Note)
			}
			return evid.Failf("no-reply:"+op, "no reply to %s (%s)", op, where)
		}
		as := e.Cluster.Attempts(q.Token)
		if len(as) == 0 {
			b, _ := cl.Decode(r)
			return evid.Failf("not-forwarded:"+op+"/"+protogen.VersionName(v), "%s (%s) never reached a backend; client got opcode %d %v", op, where, r.F.Op, b)
		}
		for _, a := range as {
			if a.Version != f.VersionByte || a.Op != f.Op {
				return evid.Failf("request-header-changed:"+op, "backend received version %#x opcode %d, client sent version %#x opcode %d (%s)", a.Version, a.Op, f.VersionByte, f.Op, where)
			}
			if a.Flags != f.Flags {
				return evid.Failf("request-flags-changed:"+op, "backend received header flags %#x, client sent %#x (%s %s)", a.Flags, f.Flags, op, where)
			}
			if !bytes.Equal(a.Body, f.Body) {
				return evid.Failf("request-body-changed:"+op+"/"+protogen.VersionName(v), "backend received %d body bytes that differ from the %d bytes the client sent (%s %s flags %#x): got %s want %s", len(a.Body), len(f.Body), op, where, f.Flags, trunc(hex.EncodeToString(a.Body)), trunc(hex.EncodeToString(f.Body)))
			}
		}
		last := as[len(as)-1]
		if last.ReplyHdr == nil {
			return evid.Failf("harness-noreply", "fake backend did not reply")
		}
		if r.F.VersionByte != last.ReplyHdr[0] || r.F.Flags != last.ReplyHdr[1] || r.F.Op != last.ReplyHdr[4] {
			return evid.Failf("response-header-changed", "client received version %#x flags %#x opcode %d, backend sent version %#x flags %#x opcode %d (%s)", r.F.VersionByte, r.F.Flags, r.F.Op, last.ReplyHdr[0], last.ReplyHdr[1], last.ReplyHdr[4], where)
		}
		if !bytes.Equal(r.F.Body, last.Reply) {
			return evid.Failf("response-body-changed", "client received %d body bytes that differ from the %d bytes the backend sent (%s, response opcode %d flags %#x)", len(r.F.Body), len(last.Reply), where, r.F.Op, r.F.Flags)
		}
	}
	return nil
}

var c03Texts = []string{
	"UPDATE ks1.t SET c = c + 1 WHERE k = '%s'",
	"INSERT INTO ks1.local (k, v) VALUES ('%s', now())",
	"UPDATE ks1.peers SET l = l + ['%s'] WHERE k = 1",
	"DELETE l[0] FROM \"system\".t WHERE k = '%s'",
	"UPDATE system_auth.roles SET c = c - 1 WHERE role = '%s'",
	"INSERT INTO ks1.t (k, v) VALUES ('%s', uuid()) IF NOT EXISTS",
}

func c03GenResponse(rt *rapid.T, v primitive.ProtocolVersion, reqOp primitive.OpCode, token string, maxLarge int) (op primitive.OpCode, flags byte, plain []byte, note string) {
	b := &frame.Body{}
	errKinds := []string{"write_timeout", "server_error", "overloaded", "truncate", "read_failure", "write_failure", "invalid", "syntax", "unauthorized", "already_exists", "function_failure", "config_error", "protocol_error", "unprepared"}
	if reqOp == primitive.OpCodePrepare {
		errKinds = []string{"invalid", "syntax", "unauthorized", "already_exists", "config_error", "read_failure", "write_failure"}
	}
	switch k := rapid.IntRange(0, 10).Draw(rt, "respkind"); {
	case k == 10 && reqOp != primitive.OpCodePrepare:
		// error frames the pinned protocol library cannot decode (newer error codes, newer write types):
		// the proxy cannot take a retry decision on them and must pass them through untouched
		var buf bytes.Buffer
		msgText := "scripted exotic tok=" + token
		switch rapid.IntRange(0, 3).Draw(rt, "exotic") {
		case 0: // WRITE_TIMEOUT with write type CAS
			_ = primitive.WriteInt(0x1100, &buf)
			_ = primitive.WriteString(msgText, &buf)
			_ = primitive.WriteShort(uint16(primitive.ConsistencyLevelQuorum), &buf)
			_ = primitive.WriteInt(1, &buf)
			_ = primitive.WriteInt(2, &buf)
			_ = primitive.WriteString(rapid.SampledFrom([]string{"CAS", "VIEW", "CDC", "FUTURE_TYPE"}).Draw(rt, "exoticwt"), &buf)
			note = "error:write_timeout-exotic-type"
		case 1: // CDC_WRITE_FAILURE
			_ = primitive.WriteInt(0x1600, &buf)
			_ = primitive.WriteString(msgText, &buf)
			note = "error:code-0x1600"
		case 2: // CAS_WRITE_UNKNOWN
			_ = primitive.WriteInt(0x1700, &buf)
			_ = primitive.WriteString(msgText, &buf)
			_ = primitive.WriteShort(uint16(primitive.ConsistencyLevelSerial), &buf)
			_ = primitive.WriteInt(1, &buf)
			_ = primitive.WriteInt(2, &buf)
			note = "error:code-0x1700"
		case 3:
			_ = primitive.WriteInt(0x7777, &buf)
			_ = primitive.WriteString(msgText, &buf)
			buf.Write(protogen.Bytes(rt, "exotictail", rapid.IntRange(0, 20).Draw(rt, "exotictaillen")))
			note = "error:code-unknown"
		}
		return primitive.OpCodeError, 0, buf.Bytes(), note
	case k < 3:
		kind := errKinds[rapid.IntRange(0, len(errKinds)-1).Draw(rt, "errkind")]
		o := fakecass.Outcome{Kind: kind, WriteType: writeTypes[rapid.IntRange(0, 5).Draw(rt, "wt")]}
		b.Message = fakecass.ErrorFor(o, "scripted "+kind+" tok="+token+" "+string(protogen.Bytes(rt, "errtext", rapid.IntRange(0, 40).Draw(rt, "errtextlen"))), v, []byte(token))
		note = "error:" + kind
	case k == 3:
		b.Message = &message.VoidResult{}
		note = "void"
	case k == 4:
		b.Message = &message.SetKeyspaceResult{Keyspace: "ks1"}
		note = "set_keyspace"
	case k == 5:
		sc := &message.SchemaChangeResult{ChangeType: []primitive.SchemaChangeType{primitive.SchemaChangeTypeCreated, primitive.SchemaChangeTypeUpdated, primitive.SchemaChangeTypeDropped}[rapid.IntRange(0, 2).Draw(rt, "sctype")],
			Target: primitive.SchemaChangeTargetTable, Keyspace: "ks1", Object: "t"}
		b.Message = sc
		note = "schema_change"
	case k == 6 && reqOp == primitive.OpCodePrepare:
		pr := &message.PreparedResult{PreparedQueryId: protogen.Bytes(rt, "prepid", 16), VariablesMetadata: &message.VariablesMetadata{}, ResultMetadata: &message.RowsMetadata{}}
		if v.SupportsResultMetadataId() {
			pr.ResultMetadataId = []byte{1, 2, 3}
		}
		b.Message = pr
		note = "prepared"
	default:
		ncol := rapid.IntRange(1, 4).Draw(rt, "ncol")
		nrow := rapid.IntRange(0, 5).Draw(rt, "nrow")
		md := &message.RowsMetadata{ColumnCount: int32(ncol)}
		for i := 0; i < ncol; i++ {
			md.Columns = append(md.Columns, &message.ColumnMetadata{Keyspace: "ks1", Table: "t", Name: fmt.Sprintf("c%d", i),
				Type: []datatype.DataType{datatype.Varchar, datatype.Int, datatype.Blob, datatype.NewList(datatype.Int)}[rapid.IntRange(0, 3).Draw(rt, "coltype")]})
		}
		if rapid.Bool().Draw(rt, "haspaging") {
			md.PagingState = protogen.Bytes(rt, "ps", rapid.IntRange(1, 50).Draw(rt, "pslen"))
		}
		rr := &message.RowsResult{Metadata: md}
		for i := 0; i < nrow; i++ {
			var row message.Row
			for j := 0; j < ncol; j++ {
				if rapid.IntRange(0, 5).Draw(rt, "nullcell") == 0 {
					row = append(row, nil)
				} else {
					row = append(row, protogen.Bytes(rt, "cell", protogen.SizeMix(rt, "celllen", maxLarge)))
				}
			}
			rr.Data = append(rr.Data, row)
		}
		b.Message = rr
		note = "rows"
	}
	if rapid.IntRange(0, 3).Draw(rt, "resptracing") == 0 {
		var id primitive.UUID
		copy(id[:], protogen.Bytes(rt, "tracingid", 16))
		b.TracingId = &id
		note += "+tracing"
	}
	if v >= primitive.ProtocolVersion4 {
		if rapid.IntRange(0, 3).Draw(rt, "respwarn") == 0 {
			b.Warnings = []string{"warning one", "ünï " + token}
			note += "+warnings"
		}
		if rapid.IntRange(0, 3).Draw(rt, "resppayload") == 0 {
			b.CustomPayload = protogen.CustomPayload(rt, 2)
			note += "+payload"
		}
	}
	plain, flags, err := wire.EncodeBody(v, b, true)
	if err != nil {
		rt.Fatalf("generator: cannot encode response %s for %v: %v", note, v, err)
	}
	return b.Message.GetOpCode(), flags, plain, note
}

func c03Gen(rt *rapid.T) c03Case {
	maxV := protogen.Version(rt)
	var accepted []primitive.ProtocolVersion
	for _, x := range protogen.Versions {
		if versionLE(x, maxV) {
			accepted = append(accepted, x)
		}
	}
	v := accepted[rapid.IntRange(0, len(accepted)-1).Draw(rt, "clientversion")]
	comps := []string{"", "lz4", "snappy"}
	if v == primitive.ProtocolVersion5 {
		comps = []string{"", "lz4"} // v5 has no snappy
	}
	c := c03Case{MaxVersion: int(maxV), Version: int(v), Comp: comps[rapid.IntRange(0, len(comps)-1).Draw(rt, "comp")], Hosts: rapid.IntRange(1, 2).Draw(rt, "hosts")}
	maxLarge := evid.Pick(1<<20, 4<<20)
	n := rapid.IntRange(1, 5).Draw(rt, "nreq")
	if rapid.IntRange(0, 3).Draw(rt, "pipelined") == 0 {
		c.Pipelined = true
		n, maxLarge = rapid.IntRange(6, 48).Draw(rt, "npipelined"), 4096
	}
	for i := 0; i < n; i++ {
		tok := nextToken()
		cl := protogen.Consistency(rt, "cl")
		text := fmt.Sprintf(c03Texts[rapid.IntRange(0, len(c03Texts)-1).Draw(rt, "text")], tok)
		var msg message.Message
		switch rapid.IntRange(0, 3).Draw(rt, "op") {
		case 0:
			msg = protogen.Query(rt, v, text, cl, maxLarge)
		case 1:
			msg = protogen.Execute(rt, v, []byte(tok), cl, maxLarge)
		case 2:
			nch := rapid.IntRange(1, 4).Draw(rt, "nchildren")
			ch := []protogen.BatchChildSpec{{Query: text}}
			for j := 1; j < nch; j++ {
				if rapid.Bool().Draw(rt, "childprepared") {
					ch = append(ch, protogen.BatchChildSpec{Id: protogen.Bytes(rt, "childid", 16)})
				} else {
					ch = append(ch, protogen.BatchChildSpec{Query: "UPDATE ks1.t SET c = c + 1 WHERE k = 2"})
				}
			}
			msg = protogen.Batch(rt, v, ch, cl, maxLarge)
		case 3:
			p := &message.Prepare{Query: text}
			if v.SupportsPrepareFlags() && rapid.Bool().Draw(rt, "prepks") {
				p.Keyspace = "ks1"
			}
			msg = p
		}
		var payload map[string][]byte
		if v >= primitive.ProtocolVersion4 && rapid.IntRange(0, 3).Draw(rt, "payload") == 0 {
			payload = protogen.CustomPayload(rt, 2)
		}
		tracing := rapid.IntRange(0, 3).Draw(rt, "tracing") == 0
		body, flags, err := protogen.EncodeBody(v, msg, payload, tracing)
		if err != nil {
			rt.Fatalf("generator: %v", err)
		}
		fl := int(flags)
		if rapid.IntRange(0, 9).Draw(rt, "hostileflag") == 0 {
			fl |= rapid.SampledFrom([]int{wire.FlagWarning, wire.FlagBeta, wire.FlagWarning | wire.FlagBeta}).Draw(rt, "extraflag")
		}
		rop, rfl, rbody, note := c03GenResponse(rt, v, msg.GetOpCode(), tok, maxLarge)
		c.Reqs = append(c.Reqs, c03Req{Op: int(msg.GetOpCode()), Flags: fl, Compress: c.Comp != "" && rapid.IntRange(0, 3).Draw(rt, "compress") > 0,
			Body: hex.EncodeToString(body), Token: tok, RespOp: int(rop), RespFlag: int(rfl), RespBody: hex.EncodeToString(rbody), Note: note})
	}
	return c
}

func TestC03(t *testing.T) {
	rec := evid.New("C03", "exploration",
		"QUERY/EXECUTE/BATCH/PREPARE frames generated over the reference library's option space for every accepted version under every max-version setting (v3,v4,v5,DSEv1,DSEv2), header flags tracing/custom payload (+warning/use-beta as extras), client compression none/lz4/snappy with individual frames uncompressed, bodies up to 1 MiB (thorough 4 MiB); backend replies are generated raw frames (void/rows/set-keyspace/schema-change/prepared/every error kind, flags tracing/warning/payload, compressed on compressed sessions); "+
			"oracle: header (version, flags, opcode, length) and body bytes at the backend equal the client's, and the response header/body at the client equal the backend's, stream id excepted; "+
			"non-trivial = frame with an optional field or header flag, compression, or a body above 16 KiB; distinct by (versions, compression, request bytes hash)")
	defer finish(t, rec)
	rec.SetJournalAll(true)
	rec.Assume("outcomes are restricted to replies the retry policy does not retry for the request's class, so every attempt carries the same bytes",
		"v5 uses the legacy (pre-segment) frame layout, as the proxy and its own tests do; snappy is not paired with v5")
	runProp(t, rec, "transparent", perShard(evid.Pick(12000, 300000)), func(rt *rapid.T) c03Case {
		c := c03Gen(rt)
		labels := []string{"max:" + protogen.VersionName(primitive.ProtocolVersion(c.MaxVersion)), "client:" + protogen.VersionName(primitive.ProtocolVersion(c.Version)), "comp:" + map[bool]string{true: c.Comp, false: "none"}[c.Comp != ""]}
		if c.Pipelined {
			labels = append(labels, "pipelined")
		}
		key := ""
		for _, q := range c.Reqs {
			labels = append(labels, opName(primitive.OpCode(q.Op)), "resp:"+q.Note)
			if q.Flags != 0 {
				labels = append(labels, fmt.Sprintf("reqflags:%#x", q.Flags))
			}
			sz := len(q.Body) / 2
			switch {
			case sz > 1<<20:
				labels = append(labels, "size:>1MiB")
			case sz > 65536:
				labels = append(labels, "size:>64KiB")
			case sz > 16384:
				labels = append(labels, "size:>16KiB")
			}
			if q.Flags != 0 || q.Compress || sz > 16384 || sz > 40 {
				key = fmt.Sprintf("%d|%d|%s|%x", c.MaxVersion, c.Version, c.Comp, hash64s([]byte(q.Body)))
			}
		}
		rec.Case(key, labels...)
		if len(c.Reqs) == 1 && len(c.Reqs[0].Body) < 400 && len(c.Reqs[0].RespBody) < 400 {
			rec.Sample(c)
		}
		return c
	}, c03Check)
	rec.Extra("lz4_bodies_rerouted_around_known_finding", atomic.LoadInt64(&wire.Lz4Excluded))
	rec.Extra("lz4_incompressible_bodies_sent_as_literals", atomic.LoadInt64(&wire.Lz4Incompressible))
}
