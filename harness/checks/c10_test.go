package checks

import (
	"bytes"
	"crypto/md5"
	"fmt"
	"math/big"
	"net"
	"sort"
	"strings"
	"testing"

	"github.com/datastax/cql-proxy/proxy"
	"github.com/datastax/go-cassandra-native-protocol/datacodec"
	"github.com/datastax/go-cassandra-native-protocol/datatype"
	"github.com/datastax/go-cassandra-native-protocol/message"
	"github.com/datastax/go-cassandra-native-protocol/primitive"
	"pgregory.net/rapid"

	"verif/harness/evid"
	"verif/harness/fakecass"
)

// ---- C10: virtual system.local / system.peers present a correct, mutually consistent ring ----

type c10Node struct {
	Addr   string   `json:"addr"`             // canonical text
	ListAs string   `json:"list_as"`          // spelling used in peer lists
	SelfAs string   `json:"self_as"`          // spelling used as rpc-address
	DC     string   `json:"dc,omitempty"`     // explicit data center, or ""
	Tokens []string `json:"tokens,omitempty"` // explicit tokens, or none
}

type c10Sel struct {
	Kind  string `json:"kind"` // col | star | count | countcol | now
	Col   string `json:"col,omitempty"`
	Alias string `json:"alias,omitempty"`
}

type c10Query struct {
	Table    string   `json:"table"`    // local | peers
	Spelling string   `json:"spelling"` // how the table is written
	Sels     []c10Sel `json:"selectors"`
	Prepare  bool     `json:"prepare"`
}

type c10Case struct {
	Nodes       []c10Node  `json:"nodes"` // empty = a proxy without rpc-address and peers
	SelfInList  bool       `json:"self_in_list"`
	DSE         string     `json:"dse_version,omitempty"`
	BackendDC   string     `json:"backend_dc"`
	HostDCs     []string   `json:"backend_host_dcs,omitempty"` // data center of each backend host (multi-DC backend)
	Contact     int        `json:"contact_point,omitempty"`
	Release     string     `json:"release_version"`
	CQLVersion  string     `json:"cql_version"`
	Partitioner string     `json:"partitioner"`
	Version     int        `json:"version"`
	Queries     []c10Query `json:"queries"`
}

var (
	c10LocalCols = []string{"key", "rpc_address", "data_center", "rack", "tokens", "release_version", "partitioner", "cluster_name", "cql_version", "schema_version", "native_protocol_version", "host_id"}
	c10PeerCols  = []string{"peer", "rpc_address", "data_center", "rack", "tokens", "release_version", "schema_version", "host_id"}
	c10Types     = map[string]datatype.DataType{"key": datatype.Varchar, "rpc_address": datatype.Inet, "data_center": datatype.Varchar, "rack": datatype.Varchar,
		"tokens": datatype.NewSet(datatype.Varchar), "release_version": datatype.Varchar, "partitioner": datatype.Varchar, "cluster_name": datatype.Varchar,
		"cql_version": datatype.Varchar, "schema_version": datatype.Uuid, "native_protocol_version": datatype.Varchar, "host_id": datatype.Uuid,
		"dse_version": datatype.Varchar, "peer": datatype.Inet}
)

func c10Columns(table string, dse bool) []string {
	base := c10LocalCols
	if table == "peers" {
		base = c10PeerCols
	}
	if !dse {
		return base
	}
	// DSE: dse_version sits right after data_center
	var out []string
	for _, c := range base {
		out = append(out, c)
		if c == "data_center" {
			out = append(out, "dse_version")
		}
	}
	return out
}

// modelHostID: version-3 (MD5, name based) UUID of the address text.
func modelHostID(addr string) string {
	sum := md5.Sum([]byte(addr))
	sum[6] = sum[6]&0x0f | 0x30
	sum[8] = sum[8]&0x3f | 0x80
	return fmt.Sprintf("%x", sum[:])
}

type c10Ring struct {
	Addr   string
	DC     string
	Tokens string
	HostID string
}

func (c *c10Case) explicitTokens() bool { return len(c.Nodes) > 0 && len(c.Nodes[0].Tokens) > 0 }

// decodeCell decodes a cell under its advertised type with the reference data codecs and renders it as text.
func decodeCell(t datatype.DataType, cell []byte, v primitive.ProtocolVersion) (string, error) {
	if cell == nil {
		return "<null>", nil
	}
	switch t.Code() {
	case primitive.DataTypeCodeVarchar, primitive.DataTypeCodeAscii:
		var s string
		if _, err := datacodec.Varchar.Decode(cell, &s, v); err != nil {
			return "", err
		}
		return s, nil
	case primitive.DataTypeCodeInet:
		var ip net.IP
		if _, err := datacodec.Inet.Decode(cell, &ip, v); err != nil {
			return "", err
		}
		return ip.String(), nil
	case primitive.DataTypeCodeUuid, primitive.DataTypeCodeTimeuuid:
		if len(cell) != 16 {
			return "", fmt.Errorf("uuid cell has %d bytes", len(cell))
		}
		return fmt.Sprintf("%x", cell), nil
	case primitive.DataTypeCodeInt:
		var i int32
		if _, err := datacodec.Int.Decode(cell, &i, v); err != nil {
			return "", err
		}
		return fmt.Sprint(i), nil
	case primitive.DataTypeCodeSet, primitive.DataTypeCodeList:
		codec, err := datacodec.NewSet(datatype.NewSet(datatype.Varchar))
		if err != nil {
			return "", err
		}
		var ss []string
		if _, err := codec.Decode(cell, &ss, v); err != nil {
			return "", err
		}
		return strings.Join(ss, ","), nil
	}
	return "", fmt.Errorf("unexpected advertised type %v", t)
}

func c10QueryText(q c10Query) string {
	var parts []string
	for _, s := range q.Sels {
		var p string
		switch s.Kind {
		case "col":
			p = s.Col
		case "star":
			p = "*"
		case "count":
			p = "count(*)"
		case "countcol":
			p = "COUNT(" + s.Col + ")"
		case "now":
			p = "now()"
		}
		if s.Alias != "" {
			p += " AS " + s.Alias
		}
		parts = append(parts, p)
	}
	return "SELECT " + strings.Join(parts, ", ") + " FROM " + q.Spelling
}

func c10Check(c c10Case) *evid.Fail {
	v := primitive.ProtocolVersion(c.Version)
	nh := len(c.HostDCs)
	if nh == 0 {
		nh = 1
	}
	cl, err := fakecass.New(nh)
	if err != nil {
		return evid.Failf("harness-env", "%v", err)
	}
	defer cl.Close()
	backendLocalDC := c.BackendDC
	for i, dc := range c.HostDCs {
		cl.Host(i).DC = dc
		if i == c.Contact {
			backendLocalDC = dc // "local" is the data center of the contact point
		}
	}
	cl.MaxVersion = primitive.ProtocolVersionDse2
	cl.DSEVersion, cl.DC, cl.ReleaseVer, cl.CQLVersion, cl.Partitioner = c.DSE, c.BackendDC, c.Release, c.CQLVersion, c.Partitioner
	dse := c.DSE != ""

	selves := len(c.Nodes)
	if selves == 0 {
		selves = 1
	}
	var rings [][]c10Ring
	for self := 0; self < selves; self++ {
		o := envOpts{Cluster: cl, Version: primitive.ProtocolVersion4, MaxVersion: primitive.ProtocolVersionDse2, Contact: c.Contact}
		// model of what this proxy must present
		var want []c10Ring // index 0 = local, rest = peers in any order
		localDC := backendLocalDC
		if len(c.Nodes) > 0 {
			me := c.Nodes[self]
			o.RPCAddr, o.DC, o.Tokens = me.SelfAs, me.DC, me.Tokens
			if me.DC != "" {
				localDC = me.DC
			}
			for i, n := range c.Nodes {
				if i == self && !c.SelfInList {
					continue
				}
				o.Peers = append(o.Peers, proxy.PeerConfig{RPCAddr: n.ListAs, DC: n.DC, Tokens: n.Tokens})
			}
		}
		e, err := startEnv(o)
		if err != nil {
			return evid.Failf("proxy-refuses-valid-config", "proxy %d of %d does not start with a valid configuration: %v (case %s)", self, selves, err, js(c.Nodes))
		}
		r, err := newRunner(e, v, "")
		if err != nil {
			e.Close()
			return evid.Failf("harness-client", "%v", err)
		}
		// token model: explicit, or evenly spaced in address order starting at the minimum token
		order := make([]int, len(c.Nodes))
		for i := range order {
			order[i] = i
		}
		sort.Slice(order, func(a, b int) bool {
			return bytes.Compare(net.ParseIP(c.Nodes[order[a]].Addr).To16(), net.ParseIP(c.Nodes[order[b]].Addr).To16()) < 0
		})
		rank := map[int]int{}
		for pos, i := range order {
			rank[i] = pos
		}
		if len(c.Nodes) == 0 {
			want = append(want, c10Ring{Addr: "127.0.0.1", DC: localDC, HostID: modelHostID("127.0.0.1")})
		} else {
			for i, n := range c.Nodes {
				dc := n.DC
				if dc == "" {
					dc = localDC
				}
				rg := c10Ring{Addr: n.Addr, DC: dc, HostID: modelHostID(n.Addr), Tokens: strings.Join(n.Tokens, ",")}
				if i == self {
					want = append([]c10Ring{rg}, want...)
				} else {
					want = append(want, rg)
				}
			}
		}
		var got []c10Ring
		for qi, q := range c.Queries {
			text := c10QueryText(q)
			where := fmt.Sprintf("proxy %d/%d %q", self, selves, text)
			var reply message.Message
			if q.Prepare {
				s := r.nextStream()
				from := r.c.NumFrames()
				_ = r.c.SendMsg(v, s, &message.Prepare{Query: text}, false)
				rp := r.c.WaitStream(s, from, 1, posWait)
				if rp == nil {
					e.Close()
					return evid.Failf("no-reply:prepare", "%s: no reply to PREPARE", where)
				}
				b, err := r.c.Decode(rp)
				if err != nil {
					e.Close()
					return evid.Failf("undecodable", "%s: %v", where, err)
				}
				pr, ok := b.Message.(*message.PreparedResult)
				if !ok {
					e.Close()
					return evid.Failf("prepare-rejected:"+q.Table+":"+tableSpellingClass(q.Spelling), "%s: PREPARE of a valid read answered with %v", where, b.Message)
				}
				ex := &message.Execute{QueryId: pr.PreparedQueryId, Options: &message.QueryOptions{Consistency: primitive.ConsistencyLevelOne}}
				if v.SupportsResultMetadataId() {
					ex.ResultMetadataId = pr.ResultMetadataId
				}
				s2 := r.nextStream()
				from2 := r.c.NumFrames()
				_ = r.c.SendMsg(v, s2, ex, false)
				rp2 := r.c.WaitStream(s2, from2, 1, posWait)
				if rp2 == nil {
					e.Close()
					return evid.Failf("no-reply:execute", "%s: no reply to EXECUTE", where)
				}
				b2, err := r.c.Decode(rp2)
				if err != nil {
					e.Close()
					return evid.Failf("undecodable", "%s: %v", where, err)
				}
				reply = b2.Message
			} else {
				s := r.nextStream()
				from := r.c.NumFrames()
				_ = r.c.SendMsg(v, s, &message.Query{Query: text, Options: &message.QueryOptions{Consistency: primitive.ConsistencyLevelOne}}, false)
				rp := r.c.WaitStream(s, from, 1, posWait)
				if rp == nil {
					e.Close()
					return evid.Failf("no-reply:query", "%s: no reply", where)
				}
				b, err := r.c.Decode(rp)
				if err != nil {
					e.Close()
					return evid.Failf("undecodable", "%s: %v", where, err)
				}
				reply = b.Message
			}
			rows, ok := reply.(*message.RowsResult)
			if !ok {
				e.Close()
				return evid.Failf("read-rejected:"+q.Table+":"+tableSpellingClass(q.Spelling), "%s: a valid read of the virtual table answered with %v", where, reply)
			}
			// expected projection
			cols := c10Columns(q.Table, dse)
			type expCol struct {
				name, kind, col string
				typ             datatype.DataType
			}
			var exp []expCol
			hasCount := false
			for _, s := range q.Sels {
				switch s.Kind {
				case "col":
					name := s.Col
					if s.Alias != "" {
						name = s.Alias
					}
					exp = append(exp, expCol{name, "col", s.Col, c10Types[s.Col]})
				case "star":
					for _, cn := range cols {
						name := cn
						if s.Alias != "" {
							name = s.Alias
						}
						exp = append(exp, expCol{name, "col", cn, c10Types[cn]})
					}
				case "count", "countcol":
					hasCount = true
					exp = append(exp, expCol{"", "count", "", datatype.Int})
				case "now":
					exp = append(exp, expCol{"", "now", "", datatype.Timeuuid})
				}
			}
			if int(rows.Metadata.ColumnCount) != len(exp) || len(rows.Metadata.Columns) != len(exp) {
				e.Close()
				return evid.Failf("projection-width", "%s: %d columns returned, %d requested", where, len(rows.Metadata.Columns), len(exp))
			}
			for i, ec := range exp {
				mc := rows.Metadata.Columns[i]
				if ec.kind == "col" && mc.Name != ec.name {
					e.Close()
					return evid.Failf("projection-name", "%s: column %d is named %q, expected %q", where, i, mc.Name, ec.name)
				}
				if mc.Type.Code() != ec.typ.Code() && !(ec.col == "tokens") {
					e.Close()
					return evid.Failf("projection-type", "%s: column %d (%s) advertised as %v, expected %v", where, i, mc.Name, mc.Type, ec.typ)
				}
			}
			wantRows := 1
			if q.Table == "peers" {
				wantRows = len(want) - 1
			}
			if !hasCount && len(rows.Data) != wantRows {
				e.Close()
				return evid.Failf("row-count:"+q.Table, "%s: %d rows, expected %d (nodes %s)", where, len(rows.Data), wantRows, js(c.Nodes))
			}
			for ri, row := range rows.Data {
				if len(row) != len(exp) {
					e.Close()
					return evid.Failf("row-width", "%s: row %d has %d cells for %d columns", where, ri, len(row), len(exp))
				}
				vals := map[string]string{}
				for i, ec := range exp {
					txt, err := decodeCell(rows.Metadata.Columns[i].Type, row[i], v)
					if err != nil {
						e.Close()
						return evid.Failf("cell-undecodable:"+rows.Metadata.Columns[i].Name, "%s: cell of column %s does not decode under its advertised type %v: %v", where, rows.Metadata.Columns[i].Name, rows.Metadata.Columns[i].Type, err)
					}
					switch ec.kind {
					case "count":
						if txt != fmt.Sprint(wantRows) {
							e.Close()
							return evid.Failf("count-value:"+q.Table, "%s: count evaluates to %s, the table has %d rows", where, txt, wantRows)
						}
					case "now":
						if len(row[i]) != 16 || row[i][6]>>4 != 1 {
							e.Close()
							return evid.Failf("now-value", "%s: now() is not a version-1 UUID: %s", where, txt)
						}
					default:
						if old, dup := vals[ec.col]; dup && old != txt {
							e.Close()
							return evid.Failf("cell-inconsistent", "%s: column %s has two values in one row", where, ec.col)
						}
						vals[ec.col] = txt
					}
				}
				// values against the model
				var candidates []c10Ring
				if q.Table == "local" {
					candidates = want[:1]
				} else {
					candidates = want[1:]
				}
				match := false
				var why string
				for _, w := range candidates {
					ok := true
					chk := func(col, wantv string) {
						if g, has := vals[col]; has && g != wantv {
							ok = false
							why = fmt.Sprintf("%s=%q, expected %q", col, g, wantv)
						}
					}
					chk("rpc_address", w.Addr)
					chk("peer", w.Addr)
					chk("data_center", w.DC)
					chk("host_id", w.HostID)
					if c.explicitTokens() {
						chk("tokens", w.Tokens)
					}
					if ok {
						match = true
						break
					}
				}
				if !match {
					e.Close()
					return evid.Failf("row-value:"+q.Table, "%s: row %d %v matches no configured node (%s); nodes %s", where, ri, vals, why, js(want))
				}
				for col, wantv := range map[string]string{"key": "local", "rack": "rack1", "release_version": c.Release, "cql_version": c.CQLVersion,
					"partitioner": c.Partitioner, "dse_version": c.DSE} {
					if g, has := vals[col]; has && g != wantv {
						e.Close()
						return evid.Failf("row-value:"+col, "%s: %s = %q, expected %q", where, col, g, wantv)
					}
				}
			}
			_ = qi
		}
		// the ring this proxy presents: SELECT * of both tables
		ring, f := c10ReadRing(r, v, dse)
		if f != nil {
			e.Close()
			return f
		}
		got = ring
		if len(got) != len(want) {
			e.Close()
			return evid.Failf("ring-size", "proxy %d presents %d nodes (local + peers), %d configured: %s vs %s", self, len(got), len(want), js(got), js(c.Nodes))
		}
		if got[0].Addr != want[0].Addr || got[0].HostID != want[0].HostID || got[0].DC != want[0].DC {
			e.Close()
			return evid.Failf("local-node", "proxy %d presents itself as %s, expected %s", self, js(got[0]), js(want[0]))
		}
		rings = append(rings, got)
		e.Close()
	}
	// cross-proxy: identical node sets; distinct tokens in address order from the minimum token
	// an entry without a data center defaults to the local DC of whichever proxy reads the list, so the
	// data centers are comparable across proxies only when all entries name one or none does
	explicit := 0
	for _, n := range c.Nodes {
		if n.DC != "" {
			explicit++
		}
	}
	compareDC := explicit == 0 || explicit == len(c.Nodes)
	canon := func(rs []c10Ring) string {
		var ss []string
		for _, r := range rs {
			dc := r.DC
			if !compareDC {
				dc = "-"
			}
			ss = append(ss, fmt.Sprintf("%s|%s|%s|%s", r.Addr, dc, r.Tokens, r.HostID))
		}
		sort.Strings(ss)
		return strings.Join(ss, "\n")
	}
	for i := 1; i < len(rings); i++ {
		if canon(rings[i]) != canon(rings[0]) {
			return evid.Failf("rings-differ", "proxy 0 and proxy %d present different rings:\n%s\n--- vs ---\n%s\nnodes %s", i, canon(rings[0]), canon(rings[i]), js(c.Nodes))
		}
	}
	if len(rings) > 0 && len(c.Nodes) > 1 && !c.explicitTokens() {
		rs := append([]c10Ring(nil), rings[0]...)
		sort.Slice(rs, func(a, b int) bool {
			return bytes.Compare(net.ParseIP(rs[a].Addr).To16(), net.ParseIP(rs[b].Addr).To16()) < 0
		})
		prev := new(big.Int)
		for i, r := range rs {
			t, ok := new(big.Int).SetString(r.Tokens, 10)
			if !ok {
				return evid.Failf("token-format", "node %s has token %q", r.Addr, r.Tokens)
			}
			if i == 0 {
				if r.Tokens != "-9223372036854775808" {
					return evid.Failf("token-start", "the node with the smallest address (%s) holds token %s, expected the minimum token", r.Addr, r.Tokens)
				}
			} else if t.Cmp(prev) <= 0 {
				return evid.Failf("token-order", "tokens are not strictly increasing in address order: %s", js(rs))
			}
			prev = t
		}
	}
	return nil
}

func tableSpellingClass(s string) string {
	switch {
	case strings.Contains(s, `"`):
		return "quoted"
	case s != strings.ToLower(s):
		return "upper-or-mixed-case"
	}
	return "plain"
}

func c10ReadRing(r *runner, v primitive.ProtocolVersion, dse bool) ([]c10Ring, *evid.Fail) {
	var out []c10Ring
	for _, tbl := range []string{"local", "peers"} {
		s := r.nextStream()
		from := r.c.NumFrames()
		_ = r.c.SendMsg(v, s, &message.Query{Query: "SELECT * FROM system." + tbl, Options: &message.QueryOptions{Consistency: primitive.ConsistencyLevelOne}}, false)
		rp := r.c.WaitStream(s, from, 1, posWait)
		if rp == nil {
			return nil, evid.Failf("no-reply:ring", "no reply to SELECT * FROM system.%s", tbl)
		}
		b, err := r.c.Decode(rp)
		if err != nil {
			return nil, evid.Failf("undecodable", "%v", err)
		}
		rows, ok := b.Message.(*message.RowsResult)
		if !ok {
			return nil, evid.Failf("read-rejected:"+tbl+":plain", "SELECT * FROM system.%s answered with %v", tbl, b.Message)
		}
		for _, row := range rows.Data {
			var rg c10Ring
			for i, mc := range rows.Metadata.Columns {
				txt, err := decodeCell(mc.Type, row[i], v)
				if err != nil {
					return nil, evid.Failf("cell-undecodable:"+mc.Name, "system.%s column %s: %v", tbl, mc.Name, err)
				}
				switch mc.Name {
				case "rpc_address":
					rg.Addr = txt
				case "data_center":
					rg.DC = txt
				case "tokens":
					rg.Tokens = txt
				case "host_id":
					rg.HostID = txt
				}
			}
			out = append(out, rg)
		}
	}
	return out, nil
}

// ---- generator ----

func c10GenAddr(rt *rapid.T, used map[string]bool) c10Node {
	for {
		var ip net.IP
		if rapid.IntRange(0, 2).Draw(rt, "v6") == 0 {
			ip = make(net.IP, 16)
			copy(ip, []byte{0x20, 0x01, 0x0d, 0xb8})
			for i := 4; i < 16; i++ {
				if rapid.IntRange(0, 2).Draw(rt, "v6zero") == 0 {
					ip[i] = rapid.Byte().Draw(rt, "v6byte")
				}
			}
			if ip[15] == 0 {
				ip[15] = 1
			}
		} else {
			ip = net.IPv4(byte(rapid.SampledFrom([]int{10, 10, 172, 192, 9, 100, 200}).Draw(rt, "a")), rapid.Byte().Draw(rt, "b"), rapid.Byte().Draw(rt, "c"), byte(rapid.IntRange(1, 254).Draw(rt, "d")))
		}
		canon := ip.String()
		if used[canon] {
			continue
		}
		used[canon] = true
		n := c10Node{Addr: canon, ListAs: canon, SelfAs: canon}
		if ip.To4() == nil {
			// alternative textual spellings of the same IPv6 address
			full := fmt.Sprintf("%x:%x:%x:%x:%x:%x:%x:%x", int(ip[0])<<8|int(ip[1]), int(ip[2])<<8|int(ip[3]), int(ip[4])<<8|int(ip[5]), int(ip[6])<<8|int(ip[7]),
				int(ip[8])<<8|int(ip[9]), int(ip[10])<<8|int(ip[11]), int(ip[12])<<8|int(ip[13]), int(ip[14])<<8|int(ip[15]))
			alts := []string{canon, full, strings.ToUpper(full), strings.ToUpper(canon)}
			n.ListAs = alts[rapid.IntRange(0, len(alts)-1).Draw(rt, "listas")]
			n.SelfAs = alts[rapid.IntRange(0, len(alts)-1).Draw(rt, "selfas")]
		}
		return n
	}
}

func c10GenQuery(rt *rapid.T, dse bool) c10Query {
	q := c10Query{Table: rapid.SampledFrom([]string{"local", "peers"}).Draw(rt, "table"), Prepare: rapid.Bool().Draw(rt, "prepare")}
	cap1 := strings.ToUpper(q.Table[:1]) + q.Table[1:]
	q.Spelling = rapid.SampledFrom([]string{"system." + q.Table, "system." + q.Table, "SYSTEM." + strings.ToUpper(q.Table), "System." + cap1, "system." + cap1,
		"system.\"" + q.Table + "\"", "\"system\"." + q.Table, "\"system\".\"" + q.Table + "\"", "sYsTeM . " + cap1}).Draw(rt, "spelling")
	cols := c10Columns(q.Table, dse)
	if rapid.IntRange(0, 3).Draw(rt, "staronly") == 0 {
		q.Sels = []c10Sel{{Kind: "star"}} // '*' cannot be combined with other selectors in CQL
		return q
	}
	n := rapid.IntRange(1, 6).Draw(rt, "nsel")
	aliases := []string{"a", "addr", "dc", "Mixed", "x1", "key", "count"}
	for i := 0; i < n; i++ {
		var s c10Sel
		switch k := rapid.IntRange(0, 9).Draw(rt, "selkind"); {
		case k < 5:
			s = c10Sel{Kind: "col", Col: cols[rapid.IntRange(0, len(cols)-1).Draw(rt, "col")]}
			if rapid.IntRange(0, 3).Draw(rt, "alias") == 0 {
				s.Alias = aliases[rapid.IntRange(0, len(aliases)-1).Draw(rt, "aliasname")]
			}
		case k == 5:
			s = c10Sel{Kind: "col", Col: cols[rapid.IntRange(0, len(cols)-1).Draw(rt, "col2")]}
		case k == 6:
			s = c10Sel{Kind: "count"}
		case k == 7:
			s = c10Sel{Kind: "countcol", Col: cols[rapid.IntRange(0, len(cols)-1).Draw(rt, "col")]}
		case k == 8:
			s = c10Sel{Kind: "now"}
		default:
			s = c10Sel{Kind: "col", Col: cols[rapid.IntRange(0, len(cols)-1).Draw(rt, "col3")], Alias: aliases[rapid.IntRange(0, len(aliases)-1).Draw(rt, "aliasname2")]}
		}
		q.Sels = append(q.Sels, s)
	}
	return q
}

func c10Gen(rt *rapid.T) c10Case {
	c := c10Case{BackendDC: rapid.SampledFrom([]string{"dc1", "DC-East", "datacenter1"}).Draw(rt, "backenddc"),
		Release: rapid.SampledFrom([]string{"4.0.4", "3.11.10", "4.1.0-SNAPSHOT"}).Draw(rt, "release"), CQLVersion: rapid.SampledFrom([]string{"3.4.5", "3.4.4"}).Draw(rt, "cql"),
		Partitioner: rapid.SampledFrom([]string{"org.apache.cassandra.dht.Murmur3Partitioner", "org.apache.cassandra.dht.RandomPartitioner"}).Draw(rt, "partitioner"),
		Version:     rapid.SampledFrom([]int{3, 4, 4, 5, 65, 66}).Draw(rt, "version"), SelfInList: rapid.Bool().Draw(rt, "selfinlist")}
	if rapid.IntRange(0, 2).Draw(rt, "dse") == 0 {
		c.DSE = rapid.SampledFrom([]string{"6.8.21", "5.1.30"}).Draw(rt, "dsev")
	}
	if rapid.IntRange(0, 2).Draw(rt, "multidc") == 0 {
		nh := rapid.IntRange(2, 3).Draw(rt, "backendhosts")
		for i := 0; i < nh; i++ {
			c.HostDCs = append(c.HostDCs, rapid.SampledFrom([]string{"dc-east", "dc-west", "dc1"}).Draw(rt, "hostdc"))
		}
		c.Contact = rapid.IntRange(0, nh-1).Draw(rt, "contact")
	}
	n := rapid.SampledFrom([]int{0, 1, 2, 2, 3, 3, 4, 5, 8, 16}).Draw(rt, "nnodes")
	used := map[string]bool{}
	dcMode := rapid.IntRange(0, 2).Draw(rt, "dcmode") // 0 none explicit, 1 all explicit, 2 mixed
	tokens := n > 0 && rapid.IntRange(0, 3).Draw(rt, "explicittokens") == 0
	for i := 0; i < n; i++ {
		nd := c10GenAddr(rt, used)
		if dcMode == 1 || dcMode == 2 && rapid.Bool().Draw(rt, "hasdc") {
			nd.DC = rapid.SampledFrom([]string{"dc1", "dc2", "DC-West"}).Draw(rt, "dc")
		}
		if tokens {
			nt := rapid.IntRange(1, 3).Draw(rt, "ntokens")
			for k := 0; k < nt; k++ {
				nd.Tokens = append(nd.Tokens, fmt.Sprint(int64(i*1000+k)*1000003-4611686018427387904))
			}
		}
		c.Nodes = append(c.Nodes, nd)
	}
	nq := rapid.IntRange(1, 6).Draw(rt, "nqueries")
	for i := 0; i < nq; i++ {
		c.Queries = append(c.Queries, c10GenQuery(rt, c.DSE != ""))
	}
	return c
}

// multihomed: no rpc-address is configured and the proxy is reachable through several addresses; each client is
// told the address it reached the proxy on (and the host id derived from it), whatever other clients were told before.
type c10Multi struct {
	Via []int `json:"clients_via_127_0_0_x"`
	DSE bool  `json:"dse,omitempty"`
}

func c10MultiCheck(c c10Multi) *evid.Fail {
	e, err := startEnv(envOpts{Hosts: 1, NumConns: 1, Keyspaces: []string{"ks1"}, ListenAny: true, DSE: map[bool]string{true: "6.8.0", false: ""}[c.DSE]})
	if err != nil {
		return evid.Failf("harness-env", "%v", err)
	}
	defer e.Close()
	for i, x := range c.Via {
		ip := fmt.Sprintf("127.0.0.%d", x)
		cl, err := e.clientVia(ip, 4, "")
		if err != nil {
			return evid.Failf("harness-client", "%v", err)
		}
		r := &runner{e: e, c: cl, v: 4, stream: 100, prepared: map[string][]byte{}}
		ring, f := c10ReadRing(r, 4, c.DSE)
		if f != nil {
			return f
		}
		if len(ring) != 1 {
			return evid.Failf("ring-size", "client %d (via %s): %d nodes presented, no peers are configured", i, ip, len(ring))
		}
		if ring[0].Addr != ip || ring[0].HostID != modelHostID(ip) {
			return evid.Failf("row-value:local:multihomed", "client %d reached the proxy on %s (clients before it: %v) but system.local says rpc_address %s host_id %s (want %s)", i, ip, c.Via[:i], ring[0].Addr, ring[0].HostID, modelHostID(ip))
		}
	}
	return nil
}

func TestC10(t *testing.T) {
	rec := evid.New("C10", "exploration",
		"peer lists of 0..16 IPv4/IPv6 addresses (alternative textual spellings of IPv6, with/without the proxy's own entry, data centers none/all/some explicit, tokens explicit or computed), every member started in turn as 'self' against one fake backend (DSE or not, generated version strings and local DC); per proxy generated selector lists over the advertised columns (subsets/order/repetition, aliases, *, count(*), count(col), now()) as QUERY and PREPARE+EXECUTE with the table spelled in case/quote variants; "+
			"oracle: a model ring computed from the configuration only (rows, projection names/types/order, cell values decoded with the reference data codecs, MD5 version-3 host ids, count = row count) and cross-proxy equality of the presented rings with distinct tokens in address order from the minimum token; "+
			"non-trivial = list with >=2 nodes or a projection that is not *; distinct by case content")
	defer finish(t, rec)
	rec.SetJournalAll(true)
	rec.Assume("only valid configurations (invalid ones are C20's business); no IPv6 zones; IPv4-mapped IPv6 spellings are not generated",
		"row count of aggregate-only reads and behaviour with WHERE are not asserted (property is silent)")
	runProp(t, rec, "multihomed", perShard(evid.Pick(60, 3000)), func(rt *rapid.T) c10Multi {
		c := c10Multi{Via: rapid.SliceOfN(rapid.IntRange(1, 4), 2, 6).Draw(rt, "via"), DSE: rapid.Bool().Draw(rt, "dse")}
		rec.Case("multi:"+js(c), "multihomed-no-rpc-address")
		rec.Sample(c)
		return c
	}, c10MultiCheck)

	runProp(t, rec, "ring", perShard(evid.Pick(8000, 200000)), func(rt *rapid.T) c10Case {
		c := c10Gen(rt)
		labels := []string{fmt.Sprintf("nodes:%d", len(c.Nodes)), fmt.Sprintf("self-in-list:%v", c.SelfInList), fmt.Sprintf("explicit-tokens:%v", c.explicitTokens()), map[bool]string{true: "backend:dse", false: "backend:oss"}[c.DSE != ""]}
		nonStar := false
		v6 := false
		if len(c.HostDCs) > 0 {
			labels = append(labels, "backend:multi-dc")
		}
		for _, n := range c.Nodes {
			if strings.Contains(n.Addr, ":") {
				v6 = true
			}
			if n.ListAs != n.SelfAs {
				labels = append(labels, "self-spelled-differently")
			}
		}
		if v6 {
			labels = append(labels, "family:v6-present")
		}
		for _, q := range c.Queries {
			labels = append(labels, "table:"+q.Table+":"+tableSpellingClass(q.Spelling), map[bool]string{true: "via:prepare", false: "via:query"}[q.Prepare])
			for _, s := range q.Sels {
				labels = append(labels, "sel:"+s.Kind)
				if s.Kind != "star" {
					nonStar = true
				}
				if s.Alias != "" {
					labels = append(labels, "sel:alias")
				}
			}
		}
		key := ""
		if len(c.Nodes) >= 2 || nonStar {
			key = js(c)
		}
		rec.Case(key, labels...)
		if len(c.Nodes) <= 3 && len(c.Queries) <= 2 {
			rec.Sample(c)
		}
		return c
	}, c10Check)
}
