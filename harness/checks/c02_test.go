package checks

import (
	"fmt"
	"strings"
	"testing"
	"time"

	"github.com/datastax/go-cassandra-native-protocol/message"
	"github.com/datastax/go-cassandra-native-protocol/primitive"
	"pgregory.net/rapid"

	"verif/harness/evid"
	"verif/harness/fakecass"
	"verif/harness/rawcli"
	"verif/harness/wire"
)

// ---- C02: a response is delivered only to the request (stream, client) that caused it ----

// (a) storm tuned for collisions: clients share stream ids, replies are held and released
// in a generated order.
func c02Gen(rt *rapid.T) stormCase {
	c := stormCase{Hosts: rapid.IntRange(1, 3).Draw(rt, "hosts"), Conns: rapid.IntRange(1, 2).Draw(rt, "conns")}
	nc := rapid.IntRange(2, 6).Draw(rt, "nclients")
	nq := rapid.IntRange(1, evid.Pick(16, 40)).Draw(rt, "nreq")
	baseStream := int16(rapid.IntRange(0, 200).Draw(rt, "basestream"))
	for i := 0; i < nc; i++ {
		sc := stormClient{Version: 4, Comp: rapid.SampledFrom([]string{"", "", "lz4", "snappy"}).Draw(rt, "ccomp")}
		for j := 0; j < nq; j++ {
			q := genReq(rt, rapid.Bool().Draw(rt, "idem"), false, false)
			n := rapid.IntRange(1, 3).Draw(rt, "scriptlen")
			for k := 0; k < n; k++ {
				switch rapid.IntRange(0, 9).Draw(rt, "o") {
				case 0, 1, 2, 3, 4:
					q.Script = append(q.Script, fakecass.Outcome{Kind: "hold"})
				case 5, 6:
					q.Script = append(q.Script, fakecass.Outcome{Kind: "ok"})
				case 7:
					q.Script = append(q.Script, fakecass.Outcome{Kind: "unavailable"})
				default:
					q.Script = append(q.Script, genOutcome(rt, false))
				}
			}
			st := baseStream + int16(j) // the same ids on every client
			sc.Reqs = append(sc.Reqs, stormReq{reqSpec: q, Stream: &st})
		}
		c.Clients = append(c.Clients, sc)
	}
	n := rapid.IntRange(0, 12).Draw(rt, "nsteps")
	for i := 0; i < n; i++ {
		c.Steps = append(c.Steps, stormStep{Op: "release", Token: rapid.IntRange(0, 500).Draw(rt, "rel")})
	}
	return c
}

// (b) recycle every backend stream id, then hold concurrent requests and release them in a
// generated permutation; (c) exceed the per-connection stream limit.
type c02Cycle struct {
	Warm     int   `json:"warmup_requests"` // sequential echo requests before the concurrent phase
	Stream   int   `json:"warmup_client_stream"`
	Clients  int   `json:"clients"`
	Held     int   `json:"held_per_client"`
	Order    []int `json:"release_order"`
	Hosts    int   `json:"hosts"`
	Conns    int   `json:"conns"`
	Exhaust  bool  `json:"exhaust"`            // hold more than 2048 requests on one backend connection
	Overflow int   `json:"overflow,omitempty"` // how many beyond the limit
	// Refused (exhaust only): while every stream id of the only backend connection is held, one more client sends this many
	// further requests; none of them can be forwarded, each must be answered with the proxy's own error
	Refused int  `json:"refused_while_exhausted,omitempty"`
	LateHB  bool `json:"late_heartbeats,omitempty"` // heartbeat replies time out and arrive late, while every stream id is in use
}

func c02Query(v primitive.ProtocolVersion, stream int16, token string, comp string) []byte {
	f, err := buildFrame(v, stream, &message.Query{Query: "SELECT * FROM ks1.t WHERE tokc = '" + token + "'", Options: &message.QueryOptions{Consistency: primitive.ConsistencyLevelOne}}, false, comp, false)
	if err != nil {
		panic(err)
	}
	return f.Bytes()
}

func c02CycleCheck(c c02Cycle) *evid.Fail {
	o := envOpts{Hosts: c.Hosts, NumConns: c.Conns, Keyspaces: []string{"ks1"}}
	if c.LateHB {
		o.HeartBeat, o.ConnectTimeout, o.Idle = 10*time.Millisecond, 40*time.Millisecond, 60*time.Second
	}
	e, err := startEnv(o)
	if err != nil {
		return evid.Failf("harness-env", "%v", err)
	}
	defer e.Close()
	if c.LateHB {
		e.Cluster.SetHoldOptions(true)
		// let a few heartbeats time out inside the proxy (their replies will arrive late); if the
		// machine is slow this only explores less, it cannot raise an alarm
		time.Sleep(120 * time.Millisecond)
	}
	var cls []*rawcli.Client
	for i := 0; i < c.Clients; i++ {
		cl, err := e.client(4, "")
		if err != nil {
			return evid.Failf("harness-client", "%v", err)
		}
		cls = append(cls, cl)
	}
	decode := func(cl *rawcli.Client, r *rawcli.Recv) *replyInfo {
		b, err := cl.Decode(r)
		if err != nil {
			return &replyInfo{Text: "undecodable " + err.Error()}
		}
		ri := &replyInfo{Msg: b.Message}
		if em, ok := b.Message.(message.Error); ok {
			ri.IsError, ri.Code, ri.Text = true, em.GetErrorCode(), em.GetErrorMessage()
		}
		ri.Echo, _ = parseEcho(b.Message)
		return ri
	}
	// warm-up: sequential windows of pipelined echo queries on client 0, all on few client stream ids
	cl0 := cls[0]
	const window = 64
	for sentN := 0; sentN < c.Warm; {
		n := window
		if c.Warm-sentN < n {
			n = c.Warm - sentN
		}
		from := cl0.NumFrames()
		toks := make([]string, n)
		var buf []byte
		for i := 0; i < n; i++ {
			toks[i] = nextToken()
			buf = append(buf, c02Query(4, int16(c.Stream+i), toks[i], "")...)
		}
		if err := cl0.Send(buf); err != nil {
			return evid.Failf("harness-send", "%v", err)
		}
		stallReset()
		if !cl0.WaitN(from+n, posWait) {
			if stalled(posWait) {
				return evid.Failf("harness-stall", "stalled")
			}
			return evid.Failf("no-reply:warmup", "warm-up window of %d requests got %d replies", n, cl0.NumFrames()-from)
		}
		for _, r := range cl0.Frames()[from : from+n] {
			i := int(r.F.Stream) - c.Stream
			if i < 0 || i >= n {
				return evid.Failf("stray-frame", "reply on stream %d during warm-up", r.F.Stream)
			}
			ri := decode(cl0, r)
			if ri.Echo == nil || ri.Echo.Tok != toks[i] {
				return evid.Failf("answer-swapped:warmup", "stream %d sent token %s but received %v (after %d requests)", r.F.Stream, toks[i], ri, sentN)
			}
		}
		sentN += n
	}
	// concurrent phase: every client holds Held requests on the same client stream ids
	held := c.Held
	type hr struct {
		cl     int
		stream int16
		tok    string
	}
	var hrs []hr
	base := make([]int, len(cls))
	for ci, cl := range cls {
		base[ci] = cl.NumFrames()
		var buf []byte
		for j := 0; j < held; j++ {
			tok := nextToken()
			e.Cluster.Script(tok, []fakecass.Outcome{{Kind: "hold"}})
			hrs = append(hrs, hr{ci, int16(j), tok})
			buf = append(buf, c02Query(4, int16(j), tok, "")...)
		}
		if err := cl.Send(buf); err != nil {
			return evid.Failf("harness-send", "%v", err)
		}
	}
	total := len(hrs)
	limit := total
	if c.Exhaust {
		limit = 2048 * c.Hosts * c.Conns
		if limit > total {
			limit = total
		}
	}
	stallReset()
	// wait until the backend holds what it can hold; requests beyond the stream limit are answered with an error
	deadline := time.Now().Add(posWait)
	for {
		nh := len(e.Cluster.HeldTokens())
		answered := 0
		for ci, cl := range cls {
			answered += cl.NumFrames() - base[ci]
		}
		if nh+answered >= total {
			break
		}
		if time.Now().After(deadline) {
			if stalled(posWait) {
				return evid.Failf("harness-stall", "stalled")
			}
			return evid.Failf("no-reply:held", "%d requests sent, backend holds %d, clients got %d replies", total, nh, answered)
		}
		time.Sleep(time.Millisecond)
	}
	if c.Exhaust && c.Refused > 0 && c.Hosts*c.Conns == 1 && len(e.Cluster.HeldTokens()) >= 2048 {
		xc, err := e.client(4, "")
		if err != nil {
			return evid.Failf("harness-client", "%v", err)
		}
		for sent := 0; sent < c.Refused; {
			n := min(500, c.Refused-sent)
			from := xc.NumFrames()
			var buf []byte
			for j := 0; j < n; j++ {
				buf = append(buf, c02Query(4, int16(j), nextToken(), "")...)
			}
			if err := xc.Send(buf); err != nil {
				return evid.Failf("harness-send", "%v", err)
			}
			if !xc.WaitN(from+n, posWait) {
				if stalled(posWait) {
					return evid.Failf("harness-stall", "stalled")
				}
				return evid.Failf("no-reply:refused", "%d of %d requests sent while every backend stream id was in use were answered (after %d earlier ones)", xc.NumFrames()-from, n, sent)
			}
			for _, r := range xc.Frames()[from:] {
				if ri := decode(xc, r); !ri.IsError || strings.Contains(ri.Text, "tok=") {
					return evid.Failf("forwarded-beyond-stream-limit", "request %d sent while all 2048 stream ids of the only backend connection were in use was answered with %v: it was forwarded on a stream id that is still in flight", sent, ri)
				}
			}
			sent += n
		}
		if nh := len(e.Cluster.HeldTokens()); nh < 2048 {
			return evid.Failf("held-lost", "only %d of 2048 held requests are still parked after %d refused requests", nh, c.Refused)
		}
	}
	// release in the generated order (indices into the held list, modulo), then everything else
	if c.LateHB {
		e.Cluster.ReleaseOptions() // the late heartbeat replies arrive while (nearly) every stream id is taken
		time.Sleep(5 * time.Millisecond)
	}
	tokens := e.Cluster.HeldTokens()
	for _, o := range c.Order {
		if len(tokens) > 0 {
			e.Cluster.Release(tokens[o%len(tokens)])
		}
	}
	e.Cluster.ReleaseAll()
	for ci, cl := range cls {
		if !cl.WaitN(base[ci]+held, posWait) {
			if stalled(posWait) {
				return evid.Failf("harness-stall", "stalled")
			}
			return evid.Failf("no-reply:held", "client %d: %d of %d held requests answered", ci, cl.NumFrames()-base[ci], held)
		}
	}
	for _, cl := range cls {
		_, _ = cl.Fence(4, posWait)
		cl.Quiesce(5*time.Millisecond, 100*time.Millisecond)
	}
	errs := 0
	for _, h := range hrs {
		cl := cls[h.cl]
		var got []*rawcli.Recv
		for _, r := range cl.Frames()[base[h.cl]:] {
			if r.F.Stream == h.stream {
				got = append(got, r)
			}
		}
		if len(got) != 1 {
			return evid.Failf("reply-count", "client %d stream %d (token %s) got %d replies", h.cl, h.stream, h.tok, len(got))
		}
		ri := decode(cl, got[0])
		switch {
		case ri.Echo != nil:
			if ri.Echo.Tok != h.tok {
				return evid.Failf("answer-swapped", "client %d stream %d sent token %s but received the result of token %s (warm-up %d, %d held)", h.cl, h.stream, h.tok, ri.Echo.Tok, c.Warm, total)
			}
		case ri.IsError && c.Exhaust && !strings.Contains(ri.Text, "tok="):
			errs++ // beyond the stream limit: the proxy's own error for this request
		default:
			return evid.Failf("answer-foreign", "client %d stream %d (token %s) received %v", h.cl, h.stream, h.tok, ri)
		}
	}
	if c.Exhaust && total > limit && errs == 0 {
		return evid.Failf("exhaustion-not-reported", "%d requests were held on connections that allow %d streams and none was refused", total, limit)
	}
	if !c.Exhaust && errs > 0 {
		return evid.Failf("answer-foreign", "%d requests answered with an error although the stream limit was not reached", errs)
	}
	return nil
}

// (d) immediate reuse of client stream ids: every client works sequentially on a handful of
// stream ids, mixing forwarded requests (answered or refused by the backend) with requests the
// proxy answers itself (successfully or with an error); a stream id is reused as soon as its
// answer has arrived. Every frame must be the answer to the request outstanding on its stream.
type c02ReuseOp struct {
	Kind   string `json:"kind"` // fwd | fwd_err | fwd_retry | a local kind of localFrame
	Stream int    `json:"stream"`
}

type c02Reuse struct {
	Hosts   int            `json:"hosts"`
	Conns   int            `json:"conns"`
	Comp    []string       `json:"compression"` // per client
	Clients [][]c02ReuseOp `json:"clients"`
}

var c02LocalKinds = []string{"options", "system_local", "system_peers", "system_bad_column", "system_json", "system_func", "use", "use_missing", "prepare_system", "prepare_system_bad_column", "prepare_system_json", "prepare_system_func", "prepare_use", "register"}

func c02ReuseCheck(c c02Reuse) *evid.Fail {
	e, err := startEnv(envOpts{Hosts: c.Hosts, NumConns: c.Conns, Keyspaces: []string{"ks1"}})
	if err != nil {
		return evid.Failf("harness-env", "%v", err)
	}
	defer e.Close()
	fails := make([]*evid.Fail, len(c.Clients))
	done := make(chan int, len(c.Clients))
	for ci := range c.Clients {
		go func(ci int) {
			defer func() { done <- ci }()
			comp := c.Comp[ci%len(c.Comp)]
			cl, err := e.client(4, comp)
			if err != nil {
				fails[ci] = evid.Failf("harness-client", "%v", err)
				return
			}
			base := cl.NumFrames()
			for oi, op := range c.Clients[ci] {
				s := int16(op.Stream)
				tok := nextToken()
				var frm *wire.Frame
				switch op.Kind {
				case "fwd", "fwd_err", "fwd_retry":
					switch op.Kind {
					case "fwd_err":
						e.Cluster.Script(tok, []fakecass.Outcome{{Kind: "invalid"}})
					case "fwd_retry":
						e.Cluster.Script(tok, []fakecass.Outcome{{Kind: "bootstrapping"}, {Kind: "ok"}})
					}
					frm, err = buildFrame(4, s, &message.Query{Query: "SELECT * FROM ks1.t WHERE tokc = '" + tok + "'", Options: &message.QueryOptions{Consistency: primitive.ConsistencyLevelOne}}, false, comp, false)
				default:
					frm, err = localFrame(4, s, op.Kind, tok, comp)
				}
				if err != nil {
					fails[ci] = evid.Failf("harness-frame", "%v", err)
					return
				}
				from := cl.NumFrames()
				if from != base+oi {
					fails[ci] = evid.Failf("stray-frame", "client %d: %d frames arrived for %d requests before op %d (%s on stream %d): an answer nobody was waiting for", ci, from-base, oi, oi, op.Kind, s)
					return
				}
				if err := cl.SendFrame(frm); err != nil {
					fails[ci] = evid.Failf("harness-send", "%v", err)
					return
				}
				stallReset()
				if !cl.WaitN(from+1, posWait) {
					if cl.PeerClosed() {
						fails[ci] = evid.Failf("client-closed", "client %d: connection closed by the proxy at op %d (%s)", ci, oi, op.Kind)
					} else if stalled(posWait) {
						fails[ci] = evid.Failf("harness-stall", "stalled")
					} else {
						fails[ci] = evid.Failf("no-reply:reuse", "client %d op %d (%s on stream %d): no answer", ci, oi, op.Kind, s)
					}
					return
				}
				r := cl.Frames()[from]
				if r.F.Stream != s {
					fails[ci] = evid.Failf("wrong-stream", "client %d op %d (%s): the only outstanding request is on stream %d but a frame arrived on stream %d", ci, oi, op.Kind, s, r.F.Stream)
					return
				}
				b, derr := cl.Decode(r)
				if derr != nil {
					fails[ci] = evid.Failf("answer-foreign", "client %d op %d (%s): undecodable answer: %v", ci, oi, op.Kind, derr)
					return
				}
				echo, _ := parseEcho(b.Message)
				em, isErr := b.Message.(message.Error)
				bad := func(why string) {
					fails[ci] = evid.Failf("answer-foreign:"+op.Kind, "client %d op %d: %s on stream %d (token %s, stream last used by op %s) was answered with %v: %s", ci, oi, op.Kind, s, tok, prevOn(c.Clients[ci], oi), b.Message, why)
				}
				switch op.Kind {
				case "fwd":
					if echo == nil || echo.Tok != tok {
						bad("not the backend's result for this token")
						return
					}
				case "fwd_retry":
					// with a single host the retry finds the plan exhausted: the proxy's own error is this request's answer
					exhausted := isErr && c.Hosts == 1 && !strings.Contains(em.GetErrorMessage(), "tok=")
					if !exhausted && (echo == nil || echo.Tok != tok) {
						bad("not the backend's result for this token")
						return
					}
				case "fwd_err":
					if !isErr || !strings.Contains(em.GetErrorMessage(), "tok="+tok+" ") {
						bad("not the backend's error for this token")
						return
					}
				case "options":
					if _, ok := b.Message.(*message.Supported); !ok {
						bad("want SUPPORTED")
						return
					}
				case "system_local", "system_peers":
					if _, ok := b.Message.(*message.RowsResult); !ok || echo != nil {
						bad("want the proxy's own rows")
						return
					}
				case "system_bad_column", "system_json", "system_func", "use_missing":
					if !isErr || strings.Contains(em.GetErrorMessage(), "tok=") {
						bad("want the proxy's (or for USE the backend's) own error for this request")
						return
					}
				case "use":
					if _, ok := b.Message.(*message.SetKeyspaceResult); !ok {
						bad("want SET_KEYSPACE")
						return
					}
				case "prepare_system":
					if _, ok := b.Message.(*message.PreparedResult); !ok {
						bad("want PREPARED")
						return
					}
				case "register":
					if _, ok := b.Message.(*message.Ready); !ok {
						bad("want READY")
						return
					}
				}
			}
			_, _ = cl.Fence(4, posWait)
			cl.Quiesce(8*time.Millisecond, 200*time.Millisecond)
			extra := 0
			for _, r := range cl.Frames()[base:] {
				if r.F.Stream < 30000 {
					extra++
				}
			}
			if extra != len(c.Clients[ci]) {
				fails[ci] = evid.Failf("stray-frame", "client %d: %d frames for %d requests", ci, extra, len(c.Clients[ci]))
			}
		}(ci)
	}
	for range c.Clients {
		<-done
	}
	for _, f := range fails {
		if f != nil {
			return f
		}
	}
	return nil
}

func prevOn(ops []c02ReuseOp, oi int) string {
	for j := oi - 1; j >= 0; j-- {
		if ops[j].Stream == ops[oi].Stream {
			return fmt.Sprintf("%d (%s)", j, ops[j].Kind)
		}
	}
	return "none"
}

func TestC02(t *testing.T) {
	rec := evid.New("C02", "exploration",
		"(d) 1..4 clients work sequentially on 1..3 stream ids each, mixing forwarded requests (answered, refused, retried) with requests the proxy answers itself (OPTIONS, REGISTER, USE, system reads, rejected system reads, PREPARE of a system read) and reusing a stream id as soon as its answer arrived: each frame must be the answer to the request outstanding on its stream and nothing else may arrive; (a) 2..6 clients using the same client stream ids pipeline requests whose backend replies are held and released in a generated order (plus retried errors); (b) the 2048 backend stream ids of a connection are recycled by thousands of sequential requests, then several clients hold requests concurrently on equal stream ids and the backend releases them in a generated permutation; (c) more requests than the per-connection stream limit are held at once; "+
			"oracle: the token echoed in the frame received on (client, stream) is the token sent there (errors carry the token too); beyond the limit a request gets its own single proxy error; "+
			"non-trivial = >=2 requests in flight on one backend connection released out of order, or equal stream ids live on >=2 clients; distinct by case content")
	defer finish(t, rec)
	rec.SetJournalAll(true)
	rec.Assume("tokens make a request recognisable: statement text for QUERY/PREPARE, bound value for EXECUTE/BATCH; the fake backend echoes them")

	runProp(t, rec, "storm", perShard(evid.Pick(1000, 50000)), func(rt *rapid.T) stormCase {
		c := c02Gen(rt)
		labels, nreq, _, parks, _ := stormClassify(&c)
		key := ""
		if len(c.Clients) >= 2 && parks >= 2 {
			key = stormKey(&c)
		}
		rec.Case(key, append(labels, fmt.Sprintf("clients:%d", len(c.Clients)))...)
		rec.ExtraAdd("requests_sent", int64(nreq))
		rec.Sample(stormSample(c))
		return c
	}, func(c stormCase) *evid.Fail {
		res, f := runStorm(&c, rec)
		if f != nil {
			if f.Sig == "harness-stall" {
				inconclusive(rec, "%s", f.Msg)
			}
			return f
		}
		if f := oracleOwnAnswer(res); f != nil {
			return f
		}
		return oracleOneReply(res)
	})

	runProp(t, rec, "reuse", perShard(evid.Pick(500, 40000)), func(rt *rapid.T) c02Reuse {
		c := c02Reuse{Hosts: rapid.IntRange(1, 3).Draw(rt, "hosts"), Conns: rapid.IntRange(1, 2).Draw(rt, "conns")}
		nc := rapid.IntRange(1, 4).Draw(rt, "nclients")
		streams := rapid.IntRange(1, 3).Draw(rt, "nstreams")
		c.Comp = rapid.SliceOfN(rapid.SampledFrom([]string{"", "", "lz4", "snappy"}), nc, nc).Draw(rt, "comp")
		reuseAfterLocalErr := false
		for i := 0; i < nc; i++ {
			n := rapid.IntRange(2, 14).Draw(rt, "nops")
			var ops []c02ReuseOp
			for j := 0; j < n; j++ {
				k := "fwd"
				switch rapid.IntRange(0, 9).Draw(rt, "k") {
				case 0, 1, 2:
					k = rapid.SampledFrom(c02LocalKinds).Draw(rt, "local")
				case 3:
					k = "fwd_err"
				case 4:
					k = "fwd_retry"
				}
				ops = append(ops, c02ReuseOp{Kind: k, Stream: rapid.IntRange(0, streams-1).Draw(rt, "s")})
			}
			for j := range ops {
				if p := prevOn(ops, j); strings.Contains(p, "system_") || strings.Contains(p, "use_missing") || strings.Contains(p, "fwd_err") {
					reuseAfterLocalErr = true
				}
			}
			c.Clients = append(c.Clients, ops)
		}
		rec.Case("reuse:"+js(c), "reuse", map[bool]string{true: "reuse-after-error-answer", false: ""}[reuseAfterLocalErr], fmt.Sprintf("reuse-clients:%d", nc))
		rec.Sample(c)
		return c
	}, func(c c02Reuse) *evid.Fail {
		f := c02ReuseCheck(c)
		if f != nil && f.Sig == "harness-stall" {
			inconclusive(rec, "%s", f.Msg)
		}
		return f
	})

	runProp(t, rec, "cycle", perShard(evid.Pick(24, 1200)), func(rt *rapid.T) c02Cycle {
		c := c02Cycle{Warm: rapid.IntRange(2049, 6500).Draw(rt, "warm"), Stream: rapid.SampledFrom([]int{0, 7, 1000, 20000}).Draw(rt, "stream"),
			Clients: rapid.IntRange(2, 4).Draw(rt, "clients"), Held: rapid.IntRange(2, 40).Draw(rt, "held"),
			Order: rapid.SliceOfN(rapid.IntRange(0, 1000), 0, 60).Draw(rt, "order"), Hosts: rapid.IntRange(1, 2).Draw(rt, "hosts"), Conns: 1}
		rec.Case("cycle:"+js(c), "cycle", fmt.Sprintf("cycle-hosts:%d", c.Hosts))
		rec.ExtraAdd("requests_sent", int64(c.Warm+c.Clients*c.Held))
		rec.Sample(c)
		return c
	}, c02CycleCheck)

	runProp(t, rec, "exhaust", perShard(evid.Pick(16, 300)), func(rt *rapid.T) c02Cycle {
		over := rapid.IntRange(1, 900).Draw(rt, "overflow")
		clients := rapid.IntRange(1, 3).Draw(rt, "clients")
		c := c02Cycle{Warm: rapid.IntRange(0, 300).Draw(rt, "warm"), Clients: clients, Held: (2048+over)/clients + 1, Hosts: 1, Conns: 1, Exhaust: true, Overflow: over,
			Order: rapid.SliceOfN(rapid.IntRange(0, 5000), 0, 100).Draw(rt, "order")}
		c.LateHB = rapid.Bool().Draw(rt, "latehb")
		c.Refused = rapid.SampledFrom([]int{0, 0, 700, 66000, 132000}).Draw(rt, "refused") // 2^16 and 2^17 draws on the stream-id allocator
		rec.Case("exhaust:"+js(c), "stream-exhaustion", map[bool]string{true: "late-heartbeats", false: ""}[c.LateHB], fmt.Sprintf("refused-while-exhausted:%d", c.Refused))
		rec.ExtraAdd("requests_sent", int64(c.Warm+c.Clients*c.Held))
		return c
	}, c02CycleCheck)
}
