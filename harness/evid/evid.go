// Package evid collects what a check actually explored and turns oracle failures into
// VIOLATION / KNOWN-FINDING lines and replay files.
//
// A check process writes a raw shard file (path in $VERIF_OUT, default
// /verif/out/<ID>/shard.json); the driver (/verif/run) merges shard files into
// /verif/evidence/<ID>.json.
package evid

import (
	"crypto/sha256"
	"encoding/hex"
	"encoding/json"
	"fmt"
	"hash/fnv"
	"os"
	"path/filepath"
	"sort"
	"strconv"
	"strings"
	"sync"
	"time"
)

const Root = "/verif"

// Fail is an oracle failure. Sig identifies the root cause (matched against
// known_findings.json), Msg is for humans.
type Fail struct {
	Sig string `json:"sig"`
	Msg string `json:"msg"`
}

func (f *Fail) Error() string { return f.Sig + ": " + f.Msg }

func Failf(sig, format string, a ...interface{}) *Fail {
	return &Fail{Sig: sig, Msg: fmt.Sprintf(format, a...)}
}

type knownFinding struct {
	Property  string `json:"property"`
	Signature string `json:"signature"`
	What      string `json:"what"`
	Status    string `json:"status"` // "known" suppresses; "fixed" suppresses nothing
}

type Recorder struct {
	ID    string
	Level string
	Rule  string

	mu          sync.Mutex
	start       time.Time
	evals       int64
	nontrivial  map[uint64]struct{}
	labels      map[string]int64
	samples     []interface{}
	sampleSeen  int
	known       map[string]int64
	knownWhat   map[string]string
	assumptions []string
	extra       map[string]interface{}
	exhaustive  bool
	violations  []violation
	findings    map[string]knownFinding
	lastCase    interface{}
	lastFail    *Fail
	journalAll  bool
}

type violation struct {
	Sig    string `json:"sig"`
	Msg    string `json:"msg"`
	Replay string `json:"replay"`
}

func New(id, level, rule string) *Recorder {
	r := &Recorder{ID: id, Level: level, Rule: rule, start: time.Now(),
		nontrivial: map[uint64]struct{}{}, labels: map[string]int64{}, known: map[string]int64{},
		knownWhat: map[string]string{}, extra: map[string]interface{}{}, findings: map[string]knownFinding{}}
	b, err := os.ReadFile(filepath.Join(Root, "known_findings.json"))
	if err == nil {
		var all struct {
			Findings []knownFinding `json:"findings"`
		}
		if json.Unmarshal(b, &all) == nil {
			for _, f := range all.Findings {
				if f.Property == id && f.Status == "known" {
					r.findings[f.Signature] = f
				}
			}
		}
	}
	return r
}

func Tier() string {
	if t := os.Getenv("VERIF_TIER"); t == "thorough" {
		return "thorough"
	}
	return "quick"
}

func Thorough() bool { return Tier() == "thorough" }

// Pick returns q in the quick tier and th in the thorough tier.
func Pick(q, th int) int {
	if Thorough() {
		return th
	}
	return q
}

func Seed() int64 {
	s, _ := strconv.ParseInt(os.Getenv("VERIF_SEED"), 10, 64)
	return s
}

func Shard() (idx, n int) {
	idx, _ = strconv.Atoi(os.Getenv("VERIF_SHARD"))
	n, _ = strconv.Atoi(os.Getenv("VERIF_SHARDS"))
	if n < 1 {
		n = 1
	}
	return
}

func hash64(s string) uint64 {
	h := fnv.New64a()
	h.Write([]byte(s))
	return h.Sum64()
}

// Case counts one generated case. key is the canonical form of the case if it is
// non-trivial by the property's rule, "" otherwise.
func (r *Recorder) Case(key string, labels ...string) {
	r.mu.Lock()
	r.evals++
	if key != "" {
		r.nontrivial[hash64(key)] = struct{}{}
	}
	for _, l := range labels {
		if l != "" {
			r.labels[l]++
		}
	}
	r.mu.Unlock()
}

func (r *Recorder) Label(labels ...string) {
	r.mu.Lock()
	for _, l := range labels {
		if l != "" {
			r.labels[l]++
		}
	}
	r.mu.Unlock()
}

func (r *Recorder) LabelN(l string, n int64) {
	r.mu.Lock()
	r.labels[l] += n
	r.mu.Unlock()
}

// Sample keeps a few literal cases (first 4, then a sparse selection).
func (r *Recorder) Sample(v interface{}) {
	r.mu.Lock()
	r.sampleSeen++
	n := r.sampleSeen
	if len(r.samples) < 4 || (len(r.samples) < 12 && n&(n-1) == 0) {
		r.samples = append(r.samples, v)
	}
	r.mu.Unlock()
}

func (r *Recorder) Assume(s ...string)            { r.assumptions = append(r.assumptions, s...) }
func (r *Recorder) Extra(k string, v interface{}) { r.mu.Lock(); r.extra[k] = v; r.mu.Unlock() }
func (r *Recorder) SetExhaustive(b bool)          { r.exhaustive = b }
func (r *Recorder) Evals() int64                  { r.mu.Lock(); defer r.mu.Unlock(); return r.evals }
func (r *Recorder) ExtraAdd(k string, n int64) {
	r.mu.Lock()
	if v, ok := r.extra[k].(int64); ok {
		r.extra[k] = v + n
	} else {
		r.extra[k] = n
	}
	r.mu.Unlock()
}

// Known reports whether sig is a listed known finding; if so the hit is counted and the
// caller must treat the case as excluded from the search.
func (r *Recorder) Known(f *Fail) bool {
	if f == nil {
		return false
	}
	r.mu.Lock()
	defer r.mu.Unlock()
	for sig, kf := range r.findings {
		if sig == f.Sig {
			r.known[sig]++
			r.knownWhat[sig] = kf.What
			return true
		}
	}
	return false
}

// Remember stores the most recent failing case; rapid's last failing execution is the
// shrunk one, so after rapid.Check the remembered case is the minimal reproduction.
func (r *Recorder) Remember(c interface{}, f *Fail) {
	r.mu.Lock()
	r.lastCase, r.lastFail = c, f
	r.mu.Unlock()
}

func (r *Recorder) Forget() { r.mu.Lock(); r.lastCase, r.lastFail = nil, nil; r.mu.Unlock() }

func outDir(id string) string {
	d := os.Getenv("VERIF_OUTDIR")
	if d == "" {
		d = filepath.Join(Root, "out", id)
	}
	_ = os.MkdirAll(d, 0o755)
	return d
}

// JournalAll makes runProp write every case to the journal before running it: if the process running
// the proxy in-process dies, the driver turns the last journal entry into the (unshrunk) replay file.
func (r *Recorder) SetJournalAll(b bool) { r.journalAll = b }
func (r *Recorder) JournalAll() bool     { return r.journalAll }

// Journal records the case that is about to run.
func (r *Recorder) Journal(kind string, c interface{}) {
	idx, _ := Shard()
	doc := map[string]interface{}{"property": r.ID, "kind": kind, "sig": "process-crash", "msg": "the process died while running this case", "case": c}
	b, err := json.Marshal(doc)
	if err != nil {
		return
	}
	_ = os.WriteFile(filepath.Join(outDir(r.ID), fmt.Sprintf("journal-%d.json", idx)), b, 0o644)
}

// Flush turns a remembered failure (if any) into a replay file and a VIOLATION line.
// kind names the sub-check so that replay knows which property function to call.
func (r *Recorder) Flush(kind string) bool {
	r.mu.Lock()
	c, f := r.lastCase, r.lastFail
	r.lastCase, r.lastFail = nil, nil
	r.mu.Unlock()
	if f == nil {
		return false
	}
	r.Violation(kind, c, f)
	return true
}

// Violation writes the replay file and prints the VIOLATION line.
func (r *Recorder) Violation(kind string, c interface{}, f *Fail) {
	doc := map[string]interface{}{"property": r.ID, "kind": kind, "sig": f.Sig, "msg": f.Msg, "case": c}
	b, _ := json.MarshalIndent(doc, "", " ")
	sum := sha256.Sum256([]byte(kind + "|" + f.Sig))
	cb, _ := json.Marshal(c)
	sum2 := sha256.Sum256(cb)
	name := fmt.Sprintf("fail-%s-%s.json", hex.EncodeToString(sum[:4]), hex.EncodeToString(sum2[:4]))
	path := filepath.Join(outDir(r.ID), name)
	_ = os.WriteFile(path, b, 0o644)
	r.mu.Lock()
	r.violations = append(r.violations, violation{Sig: f.Sig, Msg: f.Msg, Replay: path})
	r.mu.Unlock()
	msg := f.Msg
	if len(msg) > 600 {
		msg = msg[:600] + "..."
	}
	fmt.Printf("VIOLATION property=%s replay=%s sig=%s :: %s\n", r.ID, path, f.Sig, strings.ReplaceAll(msg, "\n", " | "))
}

func (r *Recorder) Violations() int { r.mu.Lock(); defer r.mu.Unlock(); return len(r.violations) }

type shardDoc struct {
	ID          string                 `json:"property_id"`
	Tier        string                 `json:"tier"`
	Seed        int64                  `json:"seed"`
	Level       string                 `json:"level"`
	Rule        string                 `json:"rule"`
	Evals       int64                  `json:"evaluations"`
	Hashes      []string               `json:"nontrivial_hashes"`
	Labels      map[string]int64       `json:"labels"`
	Samples     []interface{}          `json:"samples"`
	Known       map[string]int64       `json:"known_finding_hits"`
	KnownWhat   map[string]string      `json:"known_finding_what"`
	Assumptions []string               `json:"assumptions"`
	Extra       map[string]interface{} `json:"extra"`
	Exhaustive  bool                   `json:"exhaustive"`
	Violations  []violation            `json:"violations"`
	WallS       float64                `json:"wall_s"`
}

// Write prints KNOWN-FINDING lines and writes the raw shard file.
func (r *Recorder) Write() {
	r.mu.Lock()
	defer r.mu.Unlock()
	sigs := make([]string, 0, len(r.findings))
	for s, kf := range r.findings {
		sigs = append(sigs, s)
		r.knownWhat[s] = kf.What
	}
	sort.Strings(sigs)
	if ReplayFile() == "" || len(r.known) > 0 {
		for _, s := range sigs {
			fmt.Printf("KNOWN-FINDING: property=%s %s (signature %s, reproduced %d times in this run)\n", r.ID, r.knownWhat[s], s, r.known[s])
		}
	}
	hs := make([]string, 0, len(r.nontrivial))
	for h := range r.nontrivial {
		hs = append(hs, strconv.FormatUint(h, 36))
	}
	sort.Strings(hs)
	doc := shardDoc{ID: r.ID, Tier: Tier(), Seed: Seed(), Level: r.Level, Rule: r.Rule, Evals: r.evals, Hashes: hs,
		Labels: r.labels, Samples: r.samples, Known: r.known, KnownWhat: r.knownWhat, Assumptions: r.assumptions,
		Extra: r.extra, Exhaustive: r.exhaustive, Violations: r.violations, WallS: time.Since(r.start).Seconds()}
	b, err := json.Marshal(doc)
	if err != nil {
		fmt.Printf("evid: cannot marshal shard: %v\n", err)
		return
	}
	path := os.Getenv("VERIF_OUT")
	if path == "" {
		path = filepath.Join(outDir(r.ID), "shard.json")
	}
	if err := os.WriteFile(path, b, 0o644); err != nil {
		fmt.Printf("evid: cannot write %s: %v\n", path, err)
	}
}

// ReplayFile returns the replay file requested through $VERIF_REPLAY ("" if none).
func ReplayFile() string { return os.Getenv("VERIF_REPLAY") }

// LoadReplay decodes a replay document; caseOut receives the "case" member.
func LoadReplay(path string, caseOut interface{}) (kind string, err error) {
	b, err := os.ReadFile(path)
	if err != nil {
		return "", err
	}
	var doc struct {
		Kind string          `json:"kind"`
		Case json.RawMessage `json:"case"`
	}
	if err = json.Unmarshal(b, &doc); err != nil {
		return "", err
	}
	return doc.Kind, json.Unmarshal(doc.Case, caseOut)
}

// ReplayKind peeks at the kind of a replay document.
func ReplayKind(path string) string {
	b, err := os.ReadFile(path)
	if err != nil {
		return ""
	}
	var doc struct {
		Kind string `json:"kind"`
	}
	_ = json.Unmarshal(b, &doc)
	return doc.Kind
}

// SavedReplays lists the curated regression cases of a property.
func SavedReplays(id string) []string {
	m, _ := filepath.Glob(filepath.Join(Root, "replays", id, "*.json"))
	sort.Strings(m)
	return m
}
