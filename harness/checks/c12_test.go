package checks

import (
	"bytes"
	"crypto/md5"
	"encoding/hex"
	"fmt"
	"reflect"
	"strings"
	"testing"

	"github.com/datastax/go-cassandra-native-protocol/frame"
	"github.com/datastax/go-cassandra-native-protocol/message"
	"github.com/datastax/go-cassandra-native-protocol/primitive"
	"pgregory.net/rapid"

	"verif/harness/evid"
	"verif/harness/fakecass"
	"verif/harness/protogen"
	"verif/harness/wire"
)

// ---- C12: the write-consistency override rewrites exactly the consistency of matching writes ----

type c12Req struct {
	Op       int    `json:"opcode"`
	Flags    int    `json:"flags"`
	Compress bool   `json:"compress"`
	Body     string `json:"body"` // plain body (hex)
	Token    string `json:"token"`
	// ground truth
	Consistency int    `json:"consistency"`
	IsSelect    bool   `json:"is_select"`         // SELECT text (QUERY) or id prepared from SELECT text (EXECUTE)
	Prepare     string `json:"prepare,omitempty"` // EXECUTE of a known id: the text PREPAREd through the proxy first
	// Early: before that PREPARE the same connection EXECUTEs the id the backend is going to hand out (a driver that kept the
	// id from an earlier life of the proxy): the proxy then knows nothing about the id; what it learns from the PREPARE counts
	Early bool   `json:"execute_before_prepare,omitempty"`
	Note  string `json:"note,omitempty"`
}

type c12Case struct {
	Version     int    `json:"version"`
	Comp        string `json:"comp,omitempty"`
	Unsupported []int  `json:"unsupported"`
	Override    int    `json:"override"`
	Filler      int    `json:"filler_prepares,omitempty"` // distinct statements PREPAREd between the PREPAREs and the requests
	// Immediate: every statement is PREPAREd right before its EXECUTE, whose frame leaves the moment the PREPARED
	// result (describing WideMeta result columns) has arrived
	Immediate bool     `json:"prepare_then_execute_at_once,omitempty"`
	WideMeta  int      `json:"prepared_result_columns,omitempty"`
	Reqs      []c12Req `json:"requests"`
}

func c12Contains(xs []int, x int) bool {
	for _, y := range xs {
		if y == x {
			return true
		}
	}
	return false
}

// withConsistency returns a deep copy of msg whose consistency is cl.
func withConsistency(msg message.Message, cl primitive.ConsistencyLevel) message.Message {
	c := msg.DeepCopyMessage()
	switch m := c.(type) {
	case *message.Query:
		m.Options.Consistency = cl
	case *message.Execute:
		m.Options.Consistency = cl
	case *message.Batch:
		m.Consistency = cl
	}
	return c
}

func c12Check(c c12Case) *evid.Fail {
	v := primitive.ProtocolVersion(c.Version)
	o := envOpts{Hosts: 1, NumConns: 1, Version: primitive.ProtocolVersion4, MaxVersion: primitive.ProtocolVersionDse2, Keyspaces: []string{"ks1"}}
	for _, u := range c.Unsupported {
		o.Unsupported = append(o.Unsupported, primitive.ConsistencyLevel(u))
	}
	ov := primitive.ConsistencyLevel(c.Override)
	o.Override = &ov
	e, err := startEnv(o)
	if err != nil {
		return evid.Failf("harness-env", "%v", err)
	}
	defer e.Close()
	e.Cluster.UnpreparedAuto = false
	cl, err := e.client(v, c.Comp)
	if err != nil {
		return evid.Failf("harness-client", "%v", err)
	}
	r := &runner{e: e, c: cl, v: v, stream: 100, compress: false, prepared: map[string][]byte{}}
	ids := map[string][]byte{}
	e.Cluster.PreparedColumns = c.WideMeta
	earlyExec := func(q c12Req) *evid.Fail {
		if !q.Early {
			return nil
		}
		sum := md5.Sum([]byte("\x00" + q.Prepare)) // the fake backend's id for this text outside any keyspace
		es := r.nextStream()
		efrom := cl.NumFrames()
		_ = cl.SendMsg(v, es, &message.Execute{QueryId: sum[:], ResultMetadataId: []byte{1}, Options: &message.QueryOptions{Consistency: primitive.ConsistencyLevelAll, PositionalValues: []*primitive.Value{primitive.NewValue([]byte("early"))}}}, false)
		if cl.WaitStream(es, efrom, 1, posWait) == nil {
			return evid.Failf("harness-early-execute", "no reply to the early EXECUTE")
		}
		return nil
	}
	for _, q := range c.Reqs {
		if q.Prepare != "" && !c.Immediate {
			if f := earlyExec(q); f != nil {
				return f
			}
			id, err := r.prepare(q.Prepare)
			if err != nil {
				return evid.Failf("harness-prepare", "%v", err)
			}
			ids[q.Prepare] = id
		}
	}
	if c.Filler > 0 {
		// many other statements are prepared in between (pipelined in windows)
		const win = 256
		for done := 0; done < c.Filler; {
			n := win
			if c.Filler-done < n {
				n = c.Filler - done
			}
			from := cl.NumFrames()
			var buf []byte
			for i := 0; i < n; i++ {
				f, _ := wire.Msg(v, false, int16(1000+i), &message.Prepare{Query: fmt.Sprintf("INSERT INTO ks1.filler%d (k) VALUES (?)", done+i)}, "")
				buf = append(buf, f.Bytes()...)
			}
			if err := cl.Send(buf); err != nil {
				return evid.Failf("harness-send", "%v", err)
			}
			if !cl.WaitN(from+n, posWait) {
				return evid.Failf("harness-filler", "filler PREPAREs not answered")
			}
			done += n
		}
	}
	where := fmt.Sprintf("%s/%s", protogen.VersionName(v), map[bool]string{true: c.Comp, false: "plain"}[c.Comp != ""])
	for i, q := range c.Reqs {
		plain, _ := hex.DecodeString(q.Body)
		if q.Prepare != "" {
			if _, ok := ids[q.Prepare]; !ok {
				if f := earlyExec(q); f != nil {
					return f
				}
				id, err := r.prepare(q.Prepare)
				if err != nil {
					return evid.Failf("harness-prepare", "%v", err)
				}
				if sum := md5.Sum([]byte("\x00" + q.Prepare)); q.Early && !bytes.Equal(id, sum[:]) {
					return evid.Failf("harness-early-id", "the early EXECUTE used id %x, the PREPARE returned %x", sum, id)
				}
				ids[q.Prepare] = id
			}
			// splice the id the proxy returned into the EXECUTE body (it starts with [short bytes] id)
			id := ids[q.Prepare]
			pl := primitive.HeaderFlag(q.Flags).Contains(primitive.HeaderFlagCustomPayload)
			if pl {
				return evid.Failf("harness-case", "known-id EXECUTE with payload not supported by the splicer")
			}
			old := int(plain[0])<<8 | int(plain[1])
			nb := []byte{byte(len(id) >> 8), byte(len(id))}
			nb = append(nb, id...)
			plain = append(nb, plain[2+old:]...)
		}
		alg := ""
		if q.Compress {
			alg = c.Comp
		}
		stream := int16(300 + i)
		f, err := wire.Build(v, false, byte(q.Flags), stream, primitive.OpCode(q.Op), plain, alg)
		if err != nil {
			return evid.Failf("harness-build", "%v", err)
		}
		// the fence follows immediately on the same connection/session: a SELECT at a consistency that is never listed... any level may be listed, so the fence is a SELECT (never rewritten)
		fenceTok := nextToken()
		ff, _ := buildFrame(v, stream+1000, &message.Query{Query: "SELECT * FROM ks1.fence WHERE k = '" + fenceTok + "'", Options: &message.QueryOptions{Consistency: primitive.ConsistencyLevelOne}}, false, c.Comp, false)
		from := cl.NumFrames()
		stallReset()
		if err := cl.Send(append(f.Bytes(), ff.Bytes()...)); err != nil {
			return evid.Failf("harness-send", "%v", err)
		}
		op := opName(primitive.OpCode(q.Op))
		rr := cl.WaitStream(stream, from, 1, posWait)
		fr := cl.WaitStream(stream+1000, from, 1, posWait)
		if rr == nil || fr == nil {
			if stalled(posWait) {
				return evid.Failf("harness-stall", "stalled")
			}
			as := e.Cluster.Attempts(q.Token)
			fas := e.Cluster.Attempts(fenceTok)
			declared := ""
			if len(as) > 0 {
				declared = fmt.Sprintf("; backend read %d body bytes for the request", len(as[0].Body))
			}
			sig := "not-well-framed:" + op
			if primitive.HeaderFlag(q.Flags).Contains(primitive.HeaderFlagTracing) {
				sig += "+tracing"
			}
			return evid.Failf(sig, "%s (%s, flags %#x, consistency %v, %s): request answered=%v, following request answered=%v, request reached backend %d times, following request %d times%s - the forwarded frame's declared length does not match its body", op, where, q.Flags, primitive.ConsistencyLevel(q.Consistency), q.Note, rr != nil, fr != nil, len(as), len(fas), declared)
		}
		as := e.Cluster.Attempts(q.Token)
		if len(as) != 1 {
			return evid.Failf("attempts:"+op, "%s reached a backend %d times", op, len(as))
		}
		a := as[0]
		listed := c12Contains(c.Unsupported, q.Consistency)
		mustOverride := listed && !q.IsSelect
		what := fmt.Sprintf("%s (%s, flags %#x, consistency %v, select=%v, listed=%v, override=%v, %s)", op, where, q.Flags, primitive.ConsistencyLevel(q.Consistency), q.IsSelect, listed, ov, q.Note)
		if a.Version != f.VersionByte || a.Op != f.Op {
			return evid.Failf("header-changed:"+op, "backend received version %#x opcode %d for %s", a.Version, a.Op, what)
		}
		if !mustOverride {
			if a.Flags != f.Flags || !bytes.Equal(a.Body, f.Body) {
				sig := "modified-unlisted:"
				if listed {
					sig = "modified-select:"
				}
				if len(c.Unsupported) == 0 {
					sig = "modified-without-list:"
				}
				return evid.Failf(sig+op, "request must be forwarded unmodified but the backend received flags %#x body %s, client sent flags %#x body %s: %s", a.Flags, trunc(hex.EncodeToString(a.Plain)), f.Flags, trunc(hex.EncodeToString(plain)), what)
			}
			continue
		}
		// overridden: same meaning, consistency replaced
		if a.Flags&^wire.FlagCompressed != f.Flags&^wire.FlagCompressed {
			return evid.Failf("override-flags-changed:"+op, "overridden request lost/gained header flags: backend received %#x, client sent %#x: %s", a.Flags, f.Flags, what)
		}
		hdr := &frame.Header{Version: v, OpCode: primitive.OpCode(q.Op), Flags: primitive.HeaderFlag(q.Flags), BodyLength: int32(len(plain))}
		want, err := protogen.Ref.DecodeBody(hdr, bytes.NewReader(plain))
		if err != nil {
			return evid.Failf("harness-decode", "cannot decode own request: %v", err)
		}
		hdr2 := &frame.Header{Version: v, OpCode: primitive.OpCode(q.Op), Flags: primitive.HeaderFlag(a.Flags &^ wire.FlagCompressed), BodyLength: int32(len(a.Plain))}
		got, err := protogen.Ref.DecodeBody(hdr2, bytes.NewReader(a.Plain))
		if err != nil {
			return evid.Failf("override-undecodable:"+op, "the overridden request received by the backend cannot be decoded by the reference codec (%v): %s; received %s", err, what, trunc(hex.EncodeToString(a.Plain)))
		}
		wantMsg := withConsistency(want.Message, ov)
		if !reflect.DeepEqual(got.Message, wantMsg) {
			sig := "override-meaning-changed:" + op + "/" + protogen.VersionName(v)
			if g, ok := got.Message.(*message.Execute); ok {
				w := wantMsg.(*message.Execute)
				if !bytes.Equal(g.ResultMetadataId, w.ResultMetadataId) {
					sig = "override-loses-result-metadata-id"
				}
			}
			return evid.Failf(sig, "overridden request differs from the client's beyond the consistency: backend decoded %v, expected %v: %s", got.Message, wantMsg, what)
		}
		if !reflect.DeepEqual(got.CustomPayload, want.CustomPayload) {
			return evid.Failf("override-payload-changed:"+op, "custom payload of the overridden request changed: got %v want %v: %s", got.CustomPayload, want.CustomPayload, what)
		}
		// the decoder tolerates trailing bytes; the forwarded body must not carry any
		reenc, _, err := protogen.EncodeBody(v, got.Message, got.CustomPayload, false)
		if err == nil && len(reenc) != len(a.Plain) && len(want.CustomPayload) <= 1 {
			hasNamed := false
			switch m := got.Message.(type) {
			case *message.Query:
				hasNamed = len(m.Options.NamedValues) > 1
			case *message.Execute:
				hasNamed = len(m.Options.NamedValues) > 1
			}
			if !hasNamed {
				return evid.Failf("override-trailing-bytes:"+op, "overridden body is %d bytes but its content re-encodes to %d bytes: %s", len(a.Plain), len(reenc), what)
			}
		}
	}
	return nil
}

func c12Gen(rt *rapid.T) c12Case {
	v := protogen.Version(rt)
	comps := []string{"", "", "lz4", "snappy"}
	if v == primitive.ProtocolVersion5 {
		comps = []string{"", "", "lz4"}
	}
	c := c12Case{Version: int(v), Comp: comps[rapid.IntRange(0, len(comps)-1).Draw(rt, "comp")]}
	switch rapid.IntRange(0, 9).Draw(rt, "listkind") {
	case 0:
		// no list at all
	case 1:
		for _, x := range protogen.Consistencies {
			c.Unsupported = append(c.Unsupported, int(x))
		}
	default:
		n := rapid.IntRange(1, 5).Draw(rt, "nlisted")
		for i := 0; i < n; i++ {
			x := int(protogen.Consistency(rt, "listed"))
			if !c12Contains(c.Unsupported, x) {
				c.Unsupported = append(c.Unsupported, x)
			}
		}
	}
	c.Override = int(protogen.Consistency(rt, "override"))
	n := rapid.IntRange(1, 6).Draw(rt, "nreq")
	for i := 0; i < n; i++ {
		tok := nextToken()
		// consistency: in-list and out-of-list equally likely
		cl := protogen.Consistency(rt, "cl")
		if len(c.Unsupported) > 0 && rapid.Bool().Draw(rt, "inlist") {
			cl = primitive.ConsistencyLevel(c.Unsupported[rapid.IntRange(0, len(c.Unsupported)-1).Draw(rt, "which")])
		}
		q := c12Req{Token: tok, Consistency: int(cl)}
		selText := rapid.SampledFrom([]string{"SELECT * FROM ks1.t WHERE k = '%s'", "select v from ks1.t where k = '%s' allow filtering", "  \n SeLeCt count(*) FROM \"Ks\".t WHERE k = '%s';", "SELECT FROM WHERE '%s'",
			// comments and a bare CR are white space: the first keyword is still SELECT
			"SELECT/* c */v FROM ks1.t WHERE k = '%s'", "/* c */select/**/* from ks1.t where k = '%s'", "-- c\rSELECT v FROM ks1.t WHERE k = '%s'", "select\rv from ks1.t where k = '%s'", "// c\n\tSELECT-- c\n* FROM ks1.t WHERE k = '%s'"}).Draw(rt, "seltext")
		dmlText := rapid.SampledFrom([]string{"INSERT INTO ks1.t (k, v) VALUES ('%s', 1)", "UPDATE ks1.t SET v = 2 WHERE k = '%s'", "DELETE FROM ks1.t WHERE k = '%s'",
			"BEGIN BATCH INSERT INTO ks1.t (k) VALUES ('%s') APPLY BATCH", "TRUNCATE ks1.t /* %s */", "selectx '%s'", "INSERT INTO ks1.selects (k) VALUES ('%s')"}).Draw(rt, "dmltext")
		isSel := rapid.Bool().Draw(rt, "isselect")
		text := fmt.Sprintf(dmlText, tok)
		if isSel {
			text = fmt.Sprintf(selText, tok)
		}
		var msg message.Message
		maxLarge := 100000
		switch rapid.IntRange(0, 3).Draw(rt, "op") {
		case 0:
			msg = protogen.Query(rt, v, text, cl, maxLarge)
			q.IsSelect = isSel
			q.Note = "query"
		case 1: // EXECUTE of an id prepared through the proxy
			msg = protogen.Execute(rt, v, []byte("0123456789abcdef"), cl, maxLarge)
			q.Prepare = strings.ReplaceAll(text, tok, prepTokenOf(tok))
			q.IsSelect = isSel
			q.Note = "execute-known-id"
			// carry the request token in a positional value
			ex := msg.(*message.Execute)
			ex.Options.NamedValues = nil
			ex.Options.PositionalValues = append([]*primitive.Value{primitive.NewValue([]byte(tok))}, ex.Options.PositionalValues...)
		case 2: // EXECUTE of an id the proxy never saw: treated as a write
			msg = protogen.Execute(rt, v, []byte(tok), cl, maxLarge)
			q.Note = "execute-unknown-id"
		case 3:
			nch := rapid.IntRange(1, 4).Draw(rt, "nchildren")
			ch := []protogen.BatchChildSpec{{Query: fmt.Sprintf(dmlText, tok)}}
			for j := 1; j < nch; j++ {
				if rapid.Bool().Draw(rt, "childprepared") {
					ch = append(ch, protogen.BatchChildSpec{Id: protogen.Bytes(rt, "childid", 16)})
				} else {
					ch = append(ch, protogen.BatchChildSpec{Query: "UPDATE ks1.t SET v = 3 WHERE k = 2"})
				}
			}
			msg = protogen.Batch(rt, v, ch, cl, maxLarge)
			q.Note = "batch"
		}
		var payload map[string][]byte
		if v >= primitive.ProtocolVersion4 && q.Prepare == "" && rapid.IntRange(0, 2).Draw(rt, "payload") == 0 {
			payload = protogen.CustomPayload(rt, 3)
		}
		tracing := rapid.IntRange(0, 2).Draw(rt, "tracing") == 0
		body, flags, err := protogen.EncodeBody(v, msg, payload, tracing)
		if err != nil {
			rt.Fatalf("generator: %v", err)
		}
		q.Op, q.Flags, q.Body = int(msg.GetOpCode()), int(flags), hex.EncodeToString(body)
		q.Compress = c.Comp != "" && rapid.IntRange(0, 3).Draw(rt, "compress") > 0
		c.Reqs = append(c.Reqs, q)
	}
	if rapid.IntRange(0, 3).Draw(rt, "immediate") == 0 {
		c.Immediate = true
		c.WideMeta = rapid.SampledFrom([]int{0, 40, 1500, 5000}).Draw(rt, "widemeta")
	}
	return c
}

func TestC12(t *testing.T) {
	rec := evid.New("C12", "exploration",
		"configurations = any subset of the 11 consistency levels as the unsupported list (or none) x any override level; requests = QUERY/EXECUTE/BATCH over the reference library's option space for v3,v4,v5,DSEv1,DSEv2, header flags tracing/custom payload, client compression none/lz4/snappy, texts SELECT/DML/garbage, ids prepared from SELECT or DML text or unknown, consistency in/out of the list equally likely; each request is followed at once by a second request on the same backend connection (framing witness); "+
			"oracle: not listed / SELECT / no list => backend bytes identical to the client's; otherwise the backend's frame is well-framed and decodes (reference codec) to the client's request with only the consistency replaced by the override, same header flags and custom payload; "+
			"non-trivial = an overridden request with >=1 optional field or header flag, or an untouched SELECT at a listed level; distinct by (config, request bytes hash)")
	defer finish(t, rec)
	rec.SetJournalAll(true)
	rec.Assume("SELECT-ness ground truth: first keyword of the text (QUERY) or of the text the id was prepared from (EXECUTE); unknown ids and batches are writes",
		"configuration through proxy.Config (hook VerifConsistencies); spellings/flags/YAML of the same options are C20's business")

	runProp(t, rec, "override", perShard(evid.Pick(10000, 400000)), func(rt *rapid.T) c12Case {
		c := c12Gen(rt)
		labels := []string{"client:" + protogen.VersionName(primitive.ProtocolVersion(c.Version)), "comp:" + map[bool]string{true: c.Comp, false: "none"}[c.Comp != ""], fmt.Sprintf("listed:%d", len(c.Unsupported))}
		if c.Immediate {
			labels = append(labels, fmt.Sprintf("prepare-then-execute-at-once:cols=%d", c.WideMeta))
		}
		key := ""
		for _, q := range c.Reqs {
			listed := c12Contains(c.Unsupported, q.Consistency)
			class := "untouched-level"
			switch {
			case len(c.Unsupported) == 0:
				class = "no-list"
			case listed && q.IsSelect:
				class = "untouched-select"
			case listed:
				class = "overridden"
			}
			labels = append(labels, q.Note+":"+class)
			if q.Flags != 0 {
				labels = append(labels, fmt.Sprintf("flags:%#x:%s", q.Flags, class))
			}
			if class == "overridden" && (q.Flags != 0 || len(q.Body) > 80) || class == "untouched-select" {
				key = fmt.Sprintf("%v|%d|%d|%s|%x", c.Unsupported, c.Override, c.Version, c.Comp, hash64s([]byte(q.Body)))
			}
		}
		rec.Case(key, labels...)
		if len(c.Reqs) <= 2 && len(c.Reqs[0].Body) < 300 {
			rec.Sample(c)
		}
		return c
	}, c12Check)

	// overridden writes whose (client-compressed) body is incompressible and has a size within a few hundred bytes of 2^15,
	// 2^16 or 2^17: the proxy re-encodes and re-compresses such a request
	runProp(t, rec, "bigbody", perShard(evid.Pick(240, 8000)), func(rt *rapid.T) c12Case {
		comp := rapid.SampledFrom([]string{"lz4", "lz4", "snappy"}).Draw(rt, "comp")
		v := rapid.SampledFrom([]int{3, 4, 4, 66}).Draw(rt, "v")
		c := c12Case{Version: v, Comp: comp, Unsupported: []int{int(primitive.ConsistencyLevelOne)}, Override: int(primitive.ConsistencyLevelLocalQuorum)}
		size := rapid.SampledFrom([]int{1 << 15, 1 << 16, 1 << 16, 1 << 16, 1 << 17}).Draw(rt, "around") + rapid.IntRange(-400, 200).Draw(rt, "delta")
		x := rapid.Uint64Range(1, 1<<62).Draw(rt, "noise") // the noise is a pure function of this drawn value (xorshift)
		blob := make([]byte, size)
		for i := range blob {
			x ^= x << 13
			x ^= x >> 7
			x ^= x << 17
			blob[i] = byte(x >> 24)
		}
		tok := nextToken()
		msg := &message.Query{Query: "INSERT INTO ks1.t (k, v) VALUES ('" + tok + "', ?)", Options: &message.QueryOptions{Consistency: primitive.ConsistencyLevelOne, PositionalValues: []*primitive.Value{primitive.NewValue(blob)}}}
		body, flags, err := protogen.EncodeBody(primitive.ProtocolVersion(v), msg, nil, false)
		if err != nil {
			rt.Fatalf("generator: %v", err)
		}
		c.Reqs = []c12Req{{Op: int(primitive.OpCodeQuery), Flags: int(flags), Compress: true, Body: hex.EncodeToString(body), Token: tok, Consistency: int(primitive.ConsistencyLevelOne), Note: "incompressible-body"}}
		rec.Case(fmt.Sprintf("bigbody:%d:%s:%d", len(body), comp, v), "incompressible-body", fmt.Sprintf("bigbody:%dKiB", (len(body)+512)/1024), "bigbody:"+comp)
		return c
	}, c12Check)

	// a long prepare history between the PREPARE of a SELECT and its EXECUTE
	runProp(t, rec, "history", perShard(evid.Pick(12, 240)), func(rt *rapid.T) c12Case {
		c := c12Case{Version: 4, Unsupported: []int{int(primitive.ConsistencyLevelOne)}, Override: int(primitive.ConsistencyLevelLocalQuorum), Filler: rapid.IntRange(9000, 20000).Draw(rt, "filler")}
		early := rapid.Bool().Draw(rt, "early")
		if early {
			c.Filler = rapid.IntRange(0, 300).Draw(rt, "smallfiller")
		}
		for i := 0; i < 2; i++ {
			tok := nextToken()
			sel := i == 0
			text := "INSERT INTO ks1.t (k, v) VALUES ('" + prepTokenOf(tok) + "', ?)"
			if sel {
				text = "SELECT * FROM ks1.t WHERE k = '" + prepTokenOf(tok) + "' AND v = ?"
			}
			ex := &message.Execute{QueryId: []byte("0123456789abcdef"), Options: &message.QueryOptions{Consistency: primitive.ConsistencyLevelOne, PositionalValues: []*primitive.Value{primitive.NewValue([]byte(tok))}}}
			body, flags, _ := protogen.EncodeBody(4, ex, nil, false)
			c.Reqs = append(c.Reqs, c12Req{Op: int(primitive.OpCodeExecute), Flags: int(flags), Body: hex.EncodeToString(body), Token: tok, Consistency: int(primitive.ConsistencyLevelOne), IsSelect: sel, Prepare: text, Note: "execute-known-id-after-long-history", Early: early})
		}
		rec.Case(fmt.Sprintf("history:%d:%v", c.Filler, early), "prepare-history", map[bool]string{true: "execute-before-prepare", false: ""}[early])
		return c
	}, c12Check)
}

var _ = fakecass.Token
