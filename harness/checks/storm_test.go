package checks

import (
	"fmt"
	"net"
	"sort"
	"strings"
	"sync"
	"time"

	"github.com/datastax/cql-proxy/proxy"
	"github.com/datastax/go-cassandra-native-protocol/message"
	"github.com/datastax/go-cassandra-native-protocol/primitive"

	"verif/harness/evid"
	"verif/harness/fakecass"
	"verif/harness/rawcli"
	"verif/harness/wire"
)

// ---- "storm": several clients pipelining requests while the backend misbehaves on a
// generated schedule. Shared by C01, C02, C04 and C18; each applies its own oracle to the
// recorded history. ----

type stormReq struct {
	reqSpec
	Local  string `json:"local,omitempty"`  // locally answered request kind instead of a forwarded one
	Stream *int16 `json:"stream,omitempty"` // explicit client stream id (C02: equal ids on different clients)
}

type stormClient struct {
	Version int        `json:"version"`
	Comp    string     `json:"comp,omitempty"`
	Reqs    []stormReq `json:"requests"`
}

// stormStep is one scheduled backend event, applied when the system is quiescent
// (every request either answered or parked at the backend).
type stormStep struct {
	Op    string `json:"op"` // release | release_all | drop_conn | drop_host | drop_two | drop_all | wait_reconnect
	Token int    `json:"token,omitempty"`
	Host  int    `json:"host,omitempty"`
	Host2 int    `json:"host2,omitempty"`
	Conn  int    `json:"conn,omitempty"`
}

type stormCase struct {
	Hosts           int           `json:"hosts"`
	Conns           int           `json:"conns"`
	IdempotentGraph bool          `json:"idempotent_graph,omitempty"`
	MaxVersion      int           `json:"max_version,omitempty"`
	Clients         []stormClient `json:"clients"`
	Steps           []stormStep   `json:"steps,omitempty"`
	// FastIdle: heartbeat 20ms / idle timeout 100ms / refresh window 10ms, so that the steps silence_host and remove_host
	// make the *proxy* close backend connections (idle timeout, pool of a removed host) while requests are parked on them
	FastIdle bool `json:"fast_idle,omitempty"`
	Warn     bool `json:"backend_warns,omitempty"` // error answers carry a warning (header flag 0x08; the error code is not at offset 0)
}

// sent is one request as sent, with what came back.
type sent struct {
	Client  int
	Stream  int16
	Req     *stormReq
	Replies []*rawcli.Recv
	Info    []*replyInfo
}

type stormResult struct {
	Sent     []*sent
	Stray    []string // frames on streams the client never used
	Attempts map[string][]*fakecass.Attempt
	Clients  []*rawcli.Client
	Closed   []bool       // client connection was closed by the proxy
	LiveConn map[int]bool // backend connections still open when the history was collected
	Labels   []string
}

func (s *stormCase) tokens() []string {
	var out []string
	for _, c := range s.Clients {
		for _, q := range c.Reqs {
			if q.Local == "" {
				out = append(out, q.Token)
			}
		}
	}
	return out
}

func localFrame(v primitive.ProtocolVersion, stream int16, kind string, token string, comp string) (*wire.Frame, error) {
	opts := &message.QueryOptions{Consistency: primitive.ConsistencyLevelOne}
	switch kind {
	case "options":
		return wire.Msg(v, false, stream, &message.Options{}, "")
	case "system_local":
		return wire.Msg(v, false, stream, &message.Query{Query: "SELECT * FROM system.local WHERE key = '" + token + "'", Options: opts}, "")
	case "system_peers":
		return wire.Msg(v, false, stream, &message.Query{Query: "SELECT peer, data_center FROM system.peers", Options: opts}, "")
	case "system_bad_column":
		return wire.Msg(v, false, stream, &message.Query{Query: "SELECT nonexistent_column FROM system.local", Options: opts}, "")
	case "system_json":
		return wire.Msg(v, false, stream, &message.Query{Query: "SELECT JSON * FROM system.local WHERE key = '" + token + "'", Options: opts}, "")
	case "system_func":
		return wire.Msg(v, false, stream, &message.Query{Query: "SELECT writetime(key) FROM system.peers WHERE peer = '" + token + "'", Options: opts}, "")
	case "use":
		return wire.Msg(v, false, stream, &message.Query{Query: "USE ks1", Options: opts}, "")
	case "use_missing":
		return wire.Msg(v, false, stream, &message.Query{Query: "USE no_such_keyspace", Options: opts}, "")
	case "prepare_system":
		return wire.Msg(v, false, stream, &message.Prepare{Query: "SELECT * FROM system.peers"}, "")
	case "prepare_system_bad_column":
		return wire.Msg(v, false, stream, &message.Prepare{Query: "SELECT listen_address, key FROM system.local"}, "")
	case "prepare_system_json":
		return wire.Msg(v, false, stream, &message.Prepare{Query: "SELECT JSON * FROM system.local"}, "")
	case "prepare_system_func":
		return wire.Msg(v, false, stream, &message.Prepare{Query: "SELECT writetime(key) FROM system.peers"}, "")
	case "prepare_use":
		return wire.Msg(v, false, stream, &message.Prepare{Query: "USE ks1"}, "")
	case "register":
		return wire.Msg(v, false, stream, &message.Register{EventTypes: []primitive.EventType{primitive.EventTypeTopologyChange, primitive.EventTypeStatusChange}}, "")
	case "startup_again":
		o := map[string]string{"CQL_VERSION": "3.0.0"}
		if comp != "" {
			o["COMPRESSION"] = comp
		}
		return wire.Msg(v, false, stream, &message.Startup{Options: o}, "")
	case "startup_badcomp":
		return wire.Msg(v, false, stream, &message.Startup{Options: map[string]string{"CQL_VERSION": "3.0.0", "COMPRESSION": "zstd"}}, "")
	case "auth_response":
		return wire.Msg(v, false, stream, &message.AuthResponse{Token: []byte("x")}, "")
	case "bad_version":
		// a known version above the configured maximum (v5 legacy framing, same header layout)
		return wire.Msg(primitive.ProtocolVersion5, false, stream, &message.Options{}, "")
	}
	return nil, fmt.Errorf("unknown local kind %q", kind)
}

// parked: the latest attempt of token is being held or ignored by a backend connection that is still open.
func parked(cl *fakecass.Cluster, token string) bool {
	as := cl.Attempts(token)
	if len(as) == 0 {
		return false
	}
	last := as[len(as)-1]
	if last.Outcome != "hold" && last.Outcome != "silence" {
		return false
	}
	for _, c := range cl.Host(last.Host).Conns() {
		if c.ID == last.Conn {
			return true
		}
	}
	return false
}

// runStorm executes the case and records the history. A non-nil Fail is a harness-level
// problem or a missing reply (sig "no-reply"); oracles are applied by the caller.
func runStorm(c *stormCase, rec *evid.Recorder) (*stormResult, *evid.Fail) {
	maxV := primitive.ProtocolVersion(c.MaxVersion)
	if maxV == 0 {
		maxV = primitive.ProtocolVersion4
	}
	eo := envOpts{Hosts: c.Hosts, NumConns: c.Conns, IdempotentGraph: c.IdempotentGraph, Keyspaces: []string{"ks1"}, Version: primitive.ProtocolVersion4, MaxVersion: maxV}
	if c.FastIdle {
		eo.HeartBeat, eo.Idle = 20*time.Millisecond, 100*time.Millisecond
	}
	e, err := startEnv(eo)
	if err == nil && c.FastIdle {
		proxy.VerifSetRefreshWindow(e.Proxy, 10*time.Millisecond)
	}
	if err == nil && c.Warn {
		e.Cluster.WarnOnUnprepared = true
	}
	if err != nil {
		return nil, evid.Failf("harness-env", "cannot start environment: %v", err)
	}
	defer e.Close()
	e.Cluster.UnpreparedAuto = false
	res := &stormResult{Attempts: map[string][]*fakecass.Attempt{}}
	var runners []*runner
	for _, sc := range c.Clients {
		r, err := newRunner(e, primitive.ProtocolVersion(sc.Version), sc.Comp)
		if err != nil {
			return nil, evid.Failf("harness-client", "client: %v", err)
		}
		runners = append(runners, r)
		res.Clients = append(res.Clients, r.c)
	}
	// prepare phase (sequential): every statement an EXECUTE / BATCH child refers to
	for ci := range c.Clients {
		for qi := range c.Clients[ci].Reqs {
			q := &c.Clients[ci].Reqs[qi]
			if q.Local != "" {
				continue
			}
			if q.Kind == "execute" && !q.UnknownID && q.Decoy {
				dtok := nextToken()
				e.Cluster.ForceID(prepTokenOf(dtok), q.Token)
				e.Cluster.ForceID(prepTokenOf(q.Token), q.Token)
				if _, err := runners[ci].prepare("SELECT * FROM ks1.t WHERE tokc = '" + prepTokenOf(dtok) + "'"); err != nil {
					return nil, evid.Failf("harness-prepare", "prepare (decoy): %v", err)
				}
			}
			if q.Kind == "execute" && !q.UnknownID {
				if _, err := runners[ci].prepare(prepText(q.Stmt, q.Token)); err != nil {
					return nil, evid.Failf("harness-prepare", "prepare: %v", err)
				}
			}
			for _, ch := range q.Children {
				if ch.Prepared && !ch.Unknown {
					if _, err := runners[ci].prepare(prepText(ch.Stmt, q.Token)); err != nil {
						return nil, evid.Failf("harness-prepare", "prepare: %v", err)
					}
				}
			}
		}
	}
	base := make([]int, len(runners)) // frames received before the storm (handshake, prepares)
	for i, r := range runners {
		base[i] = r.c.NumFrames()
	}
	// send phase: each client pipelines its requests from its own goroutine
	var wg sync.WaitGroup
	var mu sync.Mutex
	var sendErr error
	perClient := make([][]*sent, len(runners))
	for ci := range c.Clients {
		wg.Add(1)
		go func(ci int) {
			defer wg.Done()
			r := runners[ci]
			for qi := range c.Clients[ci].Reqs {
				q := &c.Clients[ci].Reqs[qi]
				var s int16
				var err error
				if q.Stream != nil {
					r.stream = *q.Stream - 1
				}
				if q.Local != "" {
					s = r.nextStream()
					var f *wire.Frame
					if f, err = localFrame(r.v, s, q.Local, q.Token, r.c.Comp); err == nil {
						err = r.c.SendFrame(f)
					}
				} else {
					s, err = r.send(&q.reqSpec)
				}
				if err != nil {
					mu.Lock()
					sendErr = err
					mu.Unlock()
					return
				}
				perClient[ci] = append(perClient[ci], &sent{Client: ci, Stream: s, Req: q})
			}
		}(ci)
	}
	wg.Wait()
	if sendErr != nil {
		return nil, evid.Failf("harness-send", "send: %v", sendErr)
	}
	for _, l := range perClient {
		res.Sent = append(res.Sent, l...)
	}
	// streams answered so far, per client (refreshed incrementally)
	seenUpTo := make([]int, len(runners))
	answered := make([]map[int16]bool, len(runners))
	for i := range runners {
		seenUpTo[i] = base[i]
		answered[i] = map[int16]bool{}
	}
	replied := func(s *sent) bool {
		ci := s.Client
		if answered[ci][s.Stream] {
			return true
		}
		if n := runners[ci].c.NumFrames(); n > seenUpTo[ci] {
			for _, f := range runners[ci].c.Frames()[seenUpTo[ci]:] {
				answered[ci][f.F.Stream] = true
			}
			seenUpTo[ci] = n
		}
		return answered[ci][s.Stream]
	}
	// quiescent: every request answered, or parked at a backend, or its client connection is gone
	quiesce := func(what string) *evid.Fail {
		stallReset()
		deadline := time.Now().Add(posWait)
		for {
			pending := ""
			for _, s := range res.Sent {
				if replied(s) || runners[s.Client].c.PeerClosed() {
					continue
				}
				if s.Req.Local == "" && parked(e.Cluster, s.Req.Token) {
					continue
				}
				pending = fmt.Sprintf("client %d stream %d %s%s token %s script %v; backend saw [%s]", s.Client, s.Stream, s.Req.Kind, s.Req.Local, s.Req.Token, s.Req.Script, traceString(e.Cluster.Attempts(s.Req.Token)))
				break
			}
			if pending == "" {
				return nil
			}
			if time.Now().After(deadline) {
				if stalled(posWait) {
					return evid.Failf("harness-stall", "machine stalled while waiting (%s)", what)
				}
				return evid.Failf("no-reply", "%s: request neither answered nor parked at a backend after %v: %s\n%s", what, posWait, pending, proxyStacks())
			}
			time.Sleep(300 * time.Microsecond)
		}
	}
	if f := quiesce("after send"); f != nil {
		return res, f
	}
	toks := c.tokens()
	for i, st := range c.Steps {
		switch st.Op {
		case "release":
			if len(toks) > 0 {
				e.Cluster.Release(toks[st.Token%len(toks)])
			}
		case "release_all":
			e.Cluster.ReleaseAll()
		case "drop_conn":
			h := e.Cluster.Host(st.Host % c.Hosts)
			if cs := h.Conns(); len(cs) > 0 {
				cs[st.Conn%len(cs)].Close()
			}
		case "drop_host":
			e.Cluster.Host(st.Host % c.Hosts).DropConns(nil)
		case "drop_two":
			h1, h2 := e.Cluster.Host(st.Host%c.Hosts), e.Cluster.Host(st.Host2%c.Hosts)
			var wg2 sync.WaitGroup
			start := make(chan struct{})
			for _, h := range []*fakecass.Host{h1, h2} {
				wg2.Add(1)
				go func(h *fakecass.Host) { defer wg2.Done(); <-start; h.DropConns(nil) }(h)
			}
			close(start)
			wg2.Wait()
		case "drop_all":
			var wg2 sync.WaitGroup
			start := make(chan struct{})
			for hi := 0; hi < c.Hosts; hi++ {
				wg2.Add(1)
				go func(h *fakecass.Host) { defer wg2.Done(); <-start; h.DropConns(nil) }(e.Cluster.Host(hi))
			}
			close(start)
			wg2.Wait()
		case "silence_host":
			// every connection of the host stops answering (no FIN/RST): with FastIdle the proxy gives them up itself
			for _, cn := range e.Cluster.Host(st.Host % c.Hosts).Conns() {
				cn.SetSilent(true)
			}
			if c.FastIdle {
				time.Sleep(220 * time.Millisecond)
			}
		case "remove_host":
			// the host leaves the ring (never host 0, the contact point): with FastIdle the proxy closes its pool itself
			if h := st.Host % c.Hosts; h != 0 && c.FastIdle {
				e.Cluster.SetMember(h, false)
				ip := net.ParseIP(e.Cluster.HostIP(h))
				e.Cluster.Emit(&message.TopologyChangeEvent{ChangeType: primitive.TopologyChangeTypeRemovedNode, Address: &primitive.Inet{Addr: ip, Port: int32(e.Cluster.Port)}}, primitive.EventTypeTopologyChange)
				time.Sleep(80 * time.Millisecond)
			}
		case "wait_reconnect":
			time.Sleep(40 * time.Millisecond) // lets pools reconnect (reconnect delay is capped at 25ms); only widens the explored states
		}
		if f := quiesce(fmt.Sprintf("after step %d %s", i, st.Op)); f != nil {
			return res, f
		}
	}
	// end of schedule: establish the premise "every backend attempt is answered or has its
	// connection dropped": release what is held, drop connections that were told to stay silent
	// (time-bounded, not round-bounded: the fake backend logs an attempt as "hold" a moment before
	// the held reply becomes releasable, so a fixed number of quick rounds could all miss it)
	stallReset()
	drainDeadline := time.Now().Add(posWait)
	for round := 0; time.Now().Before(drainDeadline); round++ {
		if round > 0 {
			time.Sleep(300 * time.Microsecond)
		}
		e.Cluster.ReleaseAll()
		progressed := false
		for _, s := range res.Sent {
			if s.Req.Local != "" || replied(s) {
				continue
			}
			as := e.Cluster.Attempts(s.Req.Token)
			if len(as) > 0 && as[len(as)-1].Outcome == "silence" {
				last := as[len(as)-1]
				for _, cn := range e.Cluster.Host(last.Host).Conns() {
					if cn.ID == last.Conn {
						cn.Close()
						progressed = true
					}
				}
			}
		}
		if len(e.Cluster.HeldTokens()) == 0 && !progressed {
			all := true
			for _, s := range res.Sent {
				if !replied(s) && !runners[s.Client].c.PeerClosed() {
					all = false
				}
			}
			if all {
				break
			}
		}
		if f := quiesce("final drain"); f != nil {
			return res, f
		}
	}
	// nothing is parked any more: every request must now have its reply
	stallReset()
	deadline := time.Now().Add(posWait)
	for _, s := range res.Sent {
		for !replied(s) && !runners[s.Client].c.PeerClosed() {
			if time.Now().After(deadline) {
				if stalled(posWait) {
					return res, evid.Failf("harness-stall", "machine stalled")
				}
				diag := ""
				if as := e.Cluster.Attempts(s.Req.Token); len(as) > 0 {
					last := as[len(as)-1]
					live := false
					for _, cn := range e.Cluster.Host(last.Host).Conns() {
						if cn.ID == last.Conn {
							live = true
						}
					}
					diag = fmt.Sprintf("last attempt on conn %d (live=%v, reply recorded=%v); still held tokens %v; client frames %d", last.Conn, live, last.ReplyHdr != nil, e.Cluster.HeldTokens(), runners[s.Client].c.NumFrames())
				}
				return res, evid.Failf("no-reply", "request never answered: client %d stream %d %s%s token %s script %v; backend saw [%s]; %s\n%s", s.Client, s.Stream, s.Req.Kind, s.Req.Local, s.Req.Token, s.Req.Script, traceString(e.Cluster.Attempts(s.Req.Token)), diag, proxyStacks())
			}
			time.Sleep(300 * time.Microsecond)
		}
	}
	// negative wait: fence every client, then let the sockets go quiet
	for _, r := range runners {
		if !r.c.PeerClosed() {
			_, _ = r.c.Fence(r.v, posWait)
		}
	}
	for _, r := range runners {
		r.c.Quiesce(8*time.Millisecond, 200*time.Millisecond)
	}
	// collect
	for ci, r := range runners {
		res.Closed = append(res.Closed, r.c.PeerClosed())
		used := map[int16]bool{}
		for _, s := range perClient[ci] {
			used[s.Stream] = true
		}
		for _, f := range r.c.Frames()[base[ci]:] {
			if f.F.Stream >= 30000 { // fence
				continue
			}
			if !used[f.F.Stream] {
				res.Stray = append(res.Stray, fmt.Sprintf("client %d: frame opcode %d on stream %d that has no request", ci, f.F.Op, f.F.Stream))
				continue
			}
		}
		// assign replies to requests in order (a stream may be reused by later requests of the same client)
		byStream := map[int16][]*sent{}
		for _, s := range perClient[ci] {
			byStream[s.Stream] = append(byStream[s.Stream], s)
		}
		got := map[int16][]*rawcli.Recv{}
		for _, f := range r.c.Frames()[base[ci]:] {
			got[f.F.Stream] = append(got[f.F.Stream], f)
		}
		for st, ss := range byStream {
			if len(ss) == 1 {
				ss[0].Replies = got[st]
			} else {
				// equal stream ids used several times by one client: distribute in order, surplus to the last
				for i, s := range ss {
					if i < len(got[st]) {
						s.Replies = []*rawcli.Recv{got[st][i]}
					}
				}
				if len(got[st]) > len(ss) {
					ss[len(ss)-1].Replies = append(ss[len(ss)-1].Replies, got[st][len(ss):]...)
				}
			}
		}
		for _, s := range perClient[ci] {
			for _, rp := range s.Replies {
				ri, err := r.reply(rp)
				if err != nil {
					ri = &replyInfo{Op: primitive.OpCode(rp.F.Op), Text: "undecodable: " + err.Error()}
				}
				s.Info = append(s.Info, ri)
			}
		}
	}
	for _, t := range toks {
		res.Attempts[t] = e.Cluster.Attempts(t)
	}
	res.LiveConn = map[int]bool{}
	for hi := 0; hi < e.Cluster.NumHosts(); hi++ {
		for _, cn := range e.Cluster.Host(hi).Conns() {
			res.LiveConn[cn.ID] = true
		}
	}
	return res, nil
}

// oracleOneReply is C01: exactly one response per request on its own stream.
func oracleOneReply(res *stormResult) *evid.Fail {
	for _, s := range res.Sent {
		if res.Closed[s.Client] {
			continue // the property speaks about clients that stay connected
		}
		what := s.Req.Kind + s.Req.Local
		if len(s.Replies) == 0 {
			return evid.Failf("no-reply:"+what, "client %d stream %d (%s, script %v) got no response", s.Client, s.Stream, what, s.Req.Script)
		}
		if len(s.Replies) > 1 {
			var d []string
			for _, ri := range s.Info {
				d = append(d, ri.String())
			}
			return evid.Failf("two-replies:"+what, "client %d stream %d (%s, script %v) got %d responses: %s", s.Client, s.Stream, what, s.Req.Script, len(s.Replies), strings.Join(d, " ; "))
		}
	}
	if len(res.Stray) > 0 {
		sort.Strings(res.Stray)
		return evid.Failf("stray-frame", "%s", res.Stray[0])
	}
	return nil
}

// oracleOwnAnswer is C02: the reply on (client, stream) answers the request sent there.
func oracleOwnAnswer(res *stormResult) *evid.Fail {
	for _, s := range res.Sent {
		if s.Req.Local != "" || len(s.Info) == 0 {
			continue
		}
		for _, ri := range s.Info {
			if ri.Echo != nil && ri.Echo.Tok != s.Req.Token {
				return evid.Failf("answer-swapped", "client %d stream %d sent token %s but received the result of token %s", s.Client, s.Stream, s.Req.Token, ri.Echo.Tok)
			}
			if ri.IsError && strings.Contains(ri.Text, "tok=") && !strings.Contains(ri.Text, "tok="+s.Req.Token+" ") {
				return evid.Failf("answer-swapped-error", "client %d stream %d sent token %s but received the error %q", s.Client, s.Stream, s.Req.Token, ri.Text)
			}
			if ri.Echo == nil && !ri.IsError {
				return evid.Failf("answer-foreign", "client %d stream %d (token %s) received %v which is neither its result nor an error", s.Client, s.Stream, s.Req.Token, ri)
			}
		}
	}
	return nil
}

var safeOutcomes = map[string]bool{"unavailable": true, "bootstrapping": true, "read_timeout": true, "unprepared": true}

// oracleNoReexecution is C04 for requests that are not positively idempotent.
func oracleNoReexecution(c *stormCase, res *stormResult) *evid.Fail {
	connLoss := false
	for _, st := range c.Steps {
		if strings.HasPrefix(st.Op, "drop") {
			connLoss = true
		}
	}
	for _, sc := range c.Clients {
		for _, q := range sc.Reqs {
			for _, o := range q.Script {
				if o.Kind == "drop" || o.Kind == "reply_drop" || o.Kind == "silence" {
					connLoss = true
				}
			}
		}
	}
	for _, s := range res.Sent {
		if s.Req.Local != "" || s.Req.positivelyIdempotent(c.IdempotentGraph) {
			continue
		}
		as := res.Attempts[s.Req.Token]
		what := s.Req.Kind
		if s.Req.Graph {
			what += "+graph"
		}
		for i := 1; i < len(as); i++ {
			prev := outcomeKind(as[i-1].Outcome)
			if !safeOutcomes[prev] {
				return evid.Failf("re-executed-after:"+prev+":"+what, "non-idempotent %s (%s) was sent to a backend again after an attempt that ended in %q: [%s]", what, describeReq(&s.Req.reqSpec), as[i-1].Outcome, traceString(as))
			}
		}
		if len(as) == 0 || len(s.Info) != 1 || res.Closed[s.Client] {
			continue
		}
		last := as[len(as)-1]
		ri := s.Info[0]
		k := outcomeKind(last.Outcome)
		if connLoss && ri.IsError && ri.Code == primitive.ErrorCodeServerError && !strings.Contains(ri.Text, "scripted") {
			// Backend connections were lost during this case. A reply written just before a drop may be lost
			// with the reset, and a request that was registered on a dying connection while it was being sent
			// elsewhere is told "connection lost": the property allows a connection-lost error in both cases.
			continue
		}
		switch {
		case k == "ok" || k == "hold" || k == "reply_drop":
			// hold ends with a release (success) unless its connection was dropped first
			if ri.Echo == nil && !(k == "hold" && ri.IsError) {
				return evid.Failf("final-reply:"+k, "last attempt of %s succeeded but the client got %v", what, ri)
			}
		case k == "drop" || k == "silence":
			if !ri.IsError {
				return evid.Failf("final-reply:connection-loss", "backend connection was lost after the non-idempotent %s was received; client got %v instead of an error", what, ri)
			}
		case safeOutcomes[k]:
			// the policy may return this error or move on and find the plan exhausted: an error either way
			if !ri.IsError {
				return evid.Failf("final-reply:"+k, "last attempt of %s ended in %s but the client got %v", what, last.Outcome, ri)
			}
		default:
			if !ri.IsError || ri.Code != errCodeOf(k) {
				return evid.Failf("final-reply:"+k, "last attempt of %s ended in %s but the client got %v (attempts [%s], last on conn %d live=%v, live conns %v)", what, last.Outcome, ri, traceString(as), last.Conn, res.LiveConn[last.Conn], res.LiveConn)
			}
		}
	}
	return nil
}

func describeReq(q *reqSpec) string {
	switch q.Kind {
	case "query":
		return fmt.Sprintf("%q planted=%v", q.Stmt.Text, q.Stmt.Planted)
	case "execute":
		return fmt.Sprintf("prepared from %q planted=%v unknown_id=%v", q.Stmt.Text, q.Stmt.Planted, q.UnknownID)
	case "batch":
		var sb []string
		for _, ch := range q.Children {
			sb = append(sb, fmt.Sprintf("{prepared=%v unknown=%v idem=%v %q}", ch.Prepared, ch.Unknown, ch.Stmt.Idem, ch.Stmt.Text))
		}
		return strings.Join(sb, ",")
	}
	return ""
}
