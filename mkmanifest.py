#!/usr/bin/env python3
"""Regenerates MANIFEST.json from the table below (keeps it valid by construction)."""
import json, os, subprocess

ROOT = os.path.dirname(os.path.abspath(__file__))

# id -> (level category, technique, level text, level note, design ref)
CLAIMED = {
    "C03": ("exploration",
            "rapid-generated frames over the protocol grammar forwarded through the proxy; byte-level differential between what the client sent / the backend sent and what the other side received",
            "QUERY/EXECUTE/BATCH/PREPARE frames over the reference library's option space for every accepted version under every max-version, flags, compression (frames sent compressed or not), bodies up to 1 MiB (4 MiB thorough); generated raw backend replies of every result kind and error code, including error frames the pinned protocol library cannot decode. Oracle: header and body bytes equal on both sides except the stream id.",
            "Outcomes are restricted to replies the policy does not retry; v5 uses the legacy frame layout; lz4 bodies that hit the recorded decoder finding are re-routed as literal-only blocks (counted).",
            "DESIGN.md §2.3"),
    "C09": ("exploration",
            "rapid-generated statements from the product keyspace x qualifier x table x shape, checked against a reference model of the documented routing rule at parser level and end to end",
            "The interception decision is compared with an independent model (CQL identifier semantics) for tens of thousands of generated spellings, and end to end as QUERY and PREPARE+EXECUTE with the keyspace set by USE, by a rejected USE, or by the PREPARE keyspace field: handled <=> the request token never reaches a backend; the same unqualified text prepared under system and under a user keyspace on one connection.",
            "CQL comments (five positions, three syntaxes) count as whitespace in the model; comment markers inside string literals are generated too.",
            "DESIGN.md §2.9"),
    "C10": ("exploration",
            "rapid-generated proxy configurations and selector lists; reference model of the ring computed from the configuration; cross-proxy metamorphic relation (every member as self presents the same ring)",
            "Peer lists of 0..16 IPv4/IPv6 nodes (alternative spellings, explicit/absent DCs and tokens, multi-DC backends, DSE or not); every member is started as self; generated projections as QUERY and PREPARE+EXECUTE; cells decoded with the reference data codecs and compared with the model; rings of all proxies compared.",
            "Only valid configurations; aggregate-only row counts and WHERE are not asserted.",
            "DESIGN.md §2.10"),
    "C12": ("exploration",
            "rapid-generated override configurations and requests; differential on decoded frames (reference codec) plus byte identity for untouched requests and a framing witness request",
            "Any subset of consistency levels as the unsupported list and any override level; requests over the full option space, versions, flags and compressions; SELECT/DML/unknown-id ground truth by construction; PREPARE immediately followed by EXECUTE with wide PREPARED results; EXECUTE of the id before its PREPARE on the same connection; SELECT spellings with comments and bare CRs; client-compressed incompressible bodies around 2^15/2^16/2^17; the backend's frame must be byte-identical (not overridden) or decode to the client's request with only the consistency replaced, with the same flags and payload and a correct length (a second request follows immediately on the same backend connection).",
            "Configuration goes through proxy.Config via the verif hook; option spellings are C20's business.",
            "DESIGN.md §2.12"),
    "C13": ("exploration",
            "exhaustive enumeration of (version byte x max-version x opcode) in thorough, sampled in quick, plus rapid-generated interleaved handshake sequences against a model of the gate and of per-connection compression",
            "Unknown version bytes also followed directly by a complete valid frame; OPTIONS/STARTUP/queries pipelined in one write; one connection per cube point (256 x 5 x 8) checks protocol error/closure/never-forwarded and that the connection stays usable; generated sequences of OPTIONS/STARTUP (any COMPRESSION spelling)/REGISTER/gated frames/forwarded requests for 1..2 clients check exactly-one-reply, nothing at the backend, and that forwarded traffic runs with the client's algorithm and version.",
            "Known versions are what the protocol library accepts (v2..v5, DSEv1, DSEv2); heartbeats disabled so that backend OPTIONS counts are meaningful.",
            "DESIGN.md §2.13"),
    "C01": ("fault_enumeration",
            "rapid-generated concurrent request storms with scripted per-attempt backend faults and drop/release schedules; history invariant (one response per request stream)",
            "Generated histories of 1..4 pipelining clients against a scripted fake cluster (every error kind, hold, silence, connection drop before/after reply, simultaneous drops of several hosts; fast-idle cases in which the proxy itself gives up silent hosts or cancels the pool of a removed host under parked requests; backends that attach warnings to errors; statements in re-spelled form with comments and bare CRs), plus slow-consumer floods beyond the write-queue size and EXECUTEs of forgotten statements while nearly all 2048 backend stream ids are held; the oracle counts response frames per request stream after a positive wait, an OPTIONS fence and socket quiescence. The property quantifies over schedules and fault sequences, which a search over generated fault scripts explores but cannot exhaust.",
            "Internal goroutine interleavings are sampled, not enumerated; 'never two' is decided after a fence plus 8ms of silence; replies lost together with a reset connection are attributed to the connection loss.",
            "DESIGN.md §2.1"),
    "C02": ("exploration",
            "rapid-generated collision histories (equal stream ids on several clients, held replies released in generated permutations, stream-id recycling, stream exhaustion with up to 2^17 further requests refused while every id is held, late heartbeat replies, immediate reuse of client stream ids across forwarded and locally answered requests); token round-trip oracle",
            "Every forwarded request carries a unique token that the fake backend echoes; the check compares the token received on (client, stream) with the one sent there, across >2048-request recycling of backend stream ids, >2048 simultaneously held requests and late replies to timed-out internal requests; a sequential reuse family checks that every frame is the answer (backend result, backend error, or the proxy's own result/error) to the request outstanding on its stream and that nothing else arrives.",
            "Trusts the token echo of the fake backend; backend stream ids themselves are not inspected.",
            "DESIGN.md §2.2"),
    "C04": ("fault_enumeration",
            "rapid-generated non-idempotent requests (ground truth from the CQL generator) with per-attempt fault scripts; invariant over the backend attempt log",
            "For requests that are not positively idempotent by construction (including prepared ids whose meaning a later PREPARE redefined), scripts place one maybe-applied outcome (write timeout, server/overloaded/truncate error, failure, connection loss, silence, hold) before entries that must never be consumed; the backend's attempt log must show no attempt after such an outcome and the client must get that error or a connection-lost error.",
            "Idempotency ground truth comes from cqlgen's derivation and from which ids were PREPAREd through the proxy; syntactically broken DML is not generated (the classifier is not a validator).",
            "DESIGN.md §2.4"),
    "C05": ("fault_enumeration",
            "exhaustive enumeration of the retry decision functions + rapid-generated outcome scripts executed end to end against an independent model of the documented policy",
            "The four decision functions are enumerated exhaustively over retry counts 0..5, field values 0..5, all write types and error kinds; end to end, the backend attempt trace (host, outcome) and the client's reply of every request must equal the trace computed by a reference implementation of the documented policy (plan order, skipped hosts, same/next host, exhaustion); hosts are fully up, without any usable connection, or left with one of their two connections (still usable, must not be skipped).",
            "Requests of a case run sequentially; connection-loss scripts only on the last request of a case so that pool reconnection cannot make host availability ambiguous; plan start inferred from the first attempt.",
            "DESIGN.md §2.5"),
    "C06": ("exploration",
            "grammar-based generation of CQL with ground truth by construction (rapid), metamorphic planting, re-spelling, arbitrary-input totality; native fuzz target in thorough",
            "Statements are derived from a grammar of the documented DML forms with planted non-idempotent constructs at every term position, plus wide statements (up to 700 sibling terms); oracles: planted => false, plain sub-grammar => true, all re-spellings agree, arbitrary input terminates, err => false. A pure function, so large case counts are cheap.",
            "Ground truth is the generator's derivation; the promised-idempotent sub-grammar excludes function calls, casts and set removal (checked for stability only).",
            "DESIGN.md §2.6"),
    "C11": ("exploration",
            "differential and round-trip testing against the reference protocol codec over generated messages, boundary-size messages (bodies padded to 2^15 and to multiples of 2^16 up to 1 MiB, +- a few dozen bytes), prefixes and mutants (rapid); native fuzz target in thorough",
            "QUERY/EXECUTE/BATCH messages over the full option space for v3,v4,v5,DSEv1,DSEv2 are encoded by the reference codec and decoded the way the proxy does; extracted fields must agree, re-encoding must reproduce the bytes, cuts inside the leading fields must be rejected, accepted mutants must re-encode to a fixpoint and agree with the reference decoder.",
            "The reference library is the wire-format oracle; leniency it shares with the partial codecs (negative [long string] length read as empty) is not flagged.",
            "DESIGN.md §2.11"),
    "C15": ("exploration",
            "exhaustive enumeration of bounded event histories + rapid state-machine histories + concurrent generated schedules, against a set/rotation reference model",
            "Hosts with own addresses or sharing one address with distinct keys (Astra style). Every event history over 4 hosts up to length 4 (quick) / 5 hosts up to length 5 (thorough) is enumerated with plans created, held and drained after every prefix; longer random histories, the 2^32/2^64 counter boundaries (hook) and a concurrent variant are searched with rapid. A pure in-memory API, so exhaustive-to-a-bound plus random search is the natural level.",
            "Trusts the set-based membership model; AddEvent of an already-present host is outside the domain; concurrent variant samples schedules, does not enumerate them.",
            "DESIGN.md §2.15"),
    "C07": ("exploration",
            "rapid-generated multi-client histories (USE in every spelling, data requests, parallel USE, reconnects) against a per-client model of (version, compression, keyspace); oracle on the backend connection each request arrived on",
            "2..5 clients of different versions/compressions (client reconnects, loss and replacement of a host's backend connections, hosts that join after the sessions exist, USE refused by the backend with overloaded/bootstrapping/unauthorized), generated keyspace sets including names that differ only by case or need quoting; every tokenised QUERY/PREPARE/EXECUTE/BATCH must arrive on a backend connection whose recorded keyspace, version and compression equal the model's; USE must answer SET_KEYSPACE with the folded name or relay the backend's error and leave the state unchanged; a quarter of the cases put scheduling pressure (spinning goroutines on every processor) on the proxy while a USE of a missing keyspace is in flight.",
            "The fake backend implements Cassandra's identifier rule for USE; interleavings of parallel USE are sampled.",
            "DESIGN.md §2.7"),
    "C08": ("fault_enumeration",
            "rapid-generated prepare/execute histories with injected backend amnesia, restarts, late-joining hosts, concurrent bursts and scripted failures of the proxy's re-preparations; history invariant on client replies",
            "1..3 clients over 2..4 hosts x 1..2 connections; hosts forget one id or everything, restart, or join after start-up; requests with the tracing flag and backends that attach warnings to UNPREPARED; an EXECUTE/BATCH of ids PREPAREd through the proxy must never be answered UNPREPARED, must succeed whenever fewer re-preparations are scripted to fail than hosts are up, and must always be answered; 'exhaust' sub-check: the same no-UNPREPARED oracle while 2040-2047 of 2048 stream ids per host are held and other clients compete with the proxy's re-PREPARE for the last free id.",
            "Statement texts are partitioned by client class (version, compression); sharing a text between classes is the recorded finding C08 cross-session-reprepare (separate 'shared' sub-check, reported as KNOWN-FINDING).",
            "DESIGN.md §2.8"),
    "C14": ("exploration",
            "rapid-generated registration/disconnect/event/failover histories against a set model of registered clients; exact-delivery oracle using an ordered marker event and an OPTIONS fence",
            "1..5 clients plus a witness; REGISTER for any subset of event types, reconnects, events of all kinds and schema targets, control-connection failover (also past a lower-version host), clients dying while their reader is busy, registered clients that stall during a burst of thousands of events and then read on or vanish; after every emit each registered client has exactly one new EVENT equal to the emitted one and every other client none.",
            "Events emitted while no control connection exists are not owed; the version byte of EVENT frames is not asserted.",
            "DESIGN.md §2.14"),
    "C16": ("fault_enumeration",
            "rapid-generated reconnect-policy call sequences against an envelope model; rapid-generated backend fault sequences with bounded-eventuality convergence oracle (routing == live members); readiness endpoint of the real binary across an outage",
            "Backoff: log-uniform base/max, NextDelay/Reset/Clone sequences. Healing: nodes added/removed/restarted, pooled and control connections dropped singly and together, silent connections, total outage, nodes that accept connections but fail the system.local query (outage must be reported and never reset), refusing node (attempt-rate bound), with millisecond timers; after each action probe requests must be routed to exactly the live members, pools must be complete, exactly one control connection must exist, within 400x the timers. Removed nodes either hang up (decommission) or keep their established connections (only unlisted), so that 'requests stop going to it' is observable; a quarter of the cases first create backend sessions that never come up (USE of a missing keyspace).",
            "Liveness is decided as a bounded eventuality with a stall watchdog (missed bound on a stalled machine = inconclusive); the 10s refresh window is shortened through a verif hook; reconnect bases above 2^44 ns are not generated; surplus backend sockets and dial attempts to removed nodes are not asserted (the property speaks about requests).",
            "DESIGN.md §2.16"),
    "C17": ("fault_enumeration",
            "rapid-generated hostile client byte streams (structured: hostile strings in every field, then header/framing mutations) and hostile backend replies, against the proxy as a child process; survival + canary-service oracle",
            "The real binary (or a host program with fast timers) runs as a child; generated hostile clients and scripted hostile backend replies (malformed, on wrong streams, or well-formed but not fitting the request; to forwarded and to the proxy's own requests), odd-length prepared ids in EXECUTE/BATCH that the backend then fails, clients that pipeline thousands of requests, never read and vanish; after each case the process must be alive, a new client must be able to connect, and a well-behaved canary's system query, forwarded query and prepared execute must be answered correctly. A sixth of the client cases run against a TLS listener (--proxy-cert-file): the hostile frames inside a TLS session, or a peer that never completes / garbles the TLS handshake and stays connected.",
            "Declared lengths above 16 MiB are out of scope; the TLS family uses the real binary only; the canary retries for up to 4s after hostile backend replies.",
            "DESIGN.md §2.17"),
    "C18": ("exploration",
            "the generated scenario families of C01/C02/C07/C08/C14/C16 plus a generated concurrent client/chaos mix (pipelined handshakes, membership churn under traffic, hosts of different DC/release) and a control-connection fail-over family, executed with harness and proxy compiled with -race; oracle: the Go race detector (reports with an access site in cql-proxy)",
            "Each generated case runs many proxy goroutines against shared state (sessions, pools, prepared cache, load balancer, event fan-out, handshake state) while the backend injects faults; every race report inside cql-proxy is a violation identified by the pair of functions; 'concurrent map' fatal errors likewise.",
            "A dynamic detector: no false positives, but only races on executions that occurred; functional oracles are ignored here.",
            "DESIGN.md §2.18"),
    "C19": ("exploration",
            "rapid-generated bundle host names and server certificate chains from an in-process PKI; TLS probe servers; accept/reject oracle by construction, cross-checked with a plain crypto/tls client",
            "Chain stuffing (an invalid first certificate followed by a copy of a genuine one) is among the invalid kinds. Valid chains (leaf, leaf+intermediate, wildcard) must be accepted with SNI = node id, the bundle's client certificate and then STARTUP; every invalid chain (other CA, forged issuer name, self-signed, wrong/sibling name, CN-only, expired / not yet valid, missing intermediate) must fail with zero application bytes sent, for both the metadata service and database nodes; a server that turns invalid after a verified connection (same session-ticket keys) must be refused on the next connection of the same endpoint.",
            "Names resolve through an in-process stub DNS; validity deltas >= 2 minutes.",
            "DESIGN.md §2.19"),
    "C20": ("exploration",
            "exhaustive enumeration of documented option spellings x channels plus rapid-generated configurations, run through the real binary; oracle: tables transcribed from README/--help",
            "All (protocol-version, max-protocol-version) pairs, every consistency name as listed level and override, via long/short flags, environment and YAML, in mixed case; invalid values, heartbeat/idle around equality, num-conns around 1, missing backend: valid => serves with exactly the named behaviour observed on the wire; invalid => non-zero exit without serving.",
            "The relative order of v5 and DSE versions is undocumented (expectation 'either').",
            "DESIGN.md §2.20"),
}

NOT_APPLICABLE = {}

ALL = ["C%02d" % i for i in range(1, 21)]


def main():
    hooks_commits = []
    try:
        out = subprocess.run(["git", "-C", "/repo", "log", "--format=%h %s"], capture_output=True, text=True).stdout
        for line in out.splitlines():
            h, _, subj = line.partition(" ")
            if subj.startswith("verif hook"):
                hooks_commits.append(h)
    except Exception:
        pass
    checks = []
    for pid in ALL:
        if pid not in CLAIMED:
            continue
        cat, tech, text, note, ref = CLAIMED[pid]
        checks.append({
            "property_id": pid,
            "quick_cmd": "./run %s quick" % pid,
            "thorough_cmd": "./run %s thorough" % pid,
            "evidence_file": "/verif/evidence/%s.json" % pid,
            "replay_cmd_template": "./run %s replay {path}" % pid,
            "engine": "harness",
            "level_claimed": {"category": cat, "text": text, "design_ref": ref},
            "level_note": note,
            "technique": tech,
        })
    na = [{"property_id": p, "reason": NOT_APPLICABLE.get(p, "check not built yet (work in progress); nothing is claimed for it")}
          for p in ALL if p not in CLAIMED]
    m = {
        "version": 1,
        "setup_cmd": "./run build",
        "hooks": {
            "guard": "verif",
            "enable": "go build tag: the harness compiles /repo through a replace directive with `go test -c -tags verif`",
            "baseline_off_cmd": "cd /repo && GOPROXY=off go test -json -vet=off -count=1 -timeout 25m ./...",
            "source_commits": hooks_commits,
            "add_only": True,
        },
        "engines": [{
            "name": "harness",
            "path": "/verif/harness",
            "serves_properties": [c["property_id"] for c in checks],
            "kind_free_text": "Go module (rapid v1.3.0 property-based tests, native go fuzz targets in the thorough tier) compiled against /repo's working tree; driver /verif/run shards, merges evidence, maps outcomes to exit codes",
        }],
        "checks": checks,
        "not_applicable": na,
        "notes": "Every check is generated-input search (rapid / exhaustive enumeration of small finite domains / native fuzzing) against an explicit oracle; see DESIGN.md. Exit 2 = inconclusive (never a violation).",
    }
    json.dump(m, open(os.path.join(ROOT, "MANIFEST.json"), "w"), indent=1)
    print("MANIFEST.json: %d checks, %d not_applicable" % (len(checks), len(na)))


if __name__ == "__main__":
    main()
