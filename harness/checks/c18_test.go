package checks

import (
	"fmt"
	"net"
	"sync"
	"testing"
	"time"

	"github.com/datastax/cql-proxy/proxy"
	"github.com/datastax/go-cassandra-native-protocol/message"
	"github.com/datastax/go-cassandra-native-protocol/primitive"
	"pgregory.net/rapid"

	"verif/harness/evid"
	"verif/harness/fakecass"
)

// ---- C18: concurrent operation is free of data races ----
//
// This test only makes sense in the -race build (./run C18 builds it that way). The oracle is
// the race detector: the driver scans the output for "WARNING: DATA RACE" reports (and for
// "fatal error: concurrent map") and turns each distinct pair of access sites inside
// cql-proxy into a violation. The functional oracles of the re-used scenario families are
// deliberately ignored here (they belong to their own properties).

type c18Mix struct {
	Hosts   int   `json:"hosts"`
	Conns   int   `json:"conns"`
	Clients int   `json:"clients"`
	Ops     int   `json:"ops_per_client"`
	Chaos   []int `json:"chaos"` // backend actions fired concurrently with the traffic
	Comp    bool  `json:"compression"`
	Churn   int   `json:"churn,omitempty"` // > 0: the chaos goroutine first removes and re-adds nodes that many times under full traffic
	// Mixed: the hosts are in two data centers and on different releases (rolling upgrade), so that a control-connection
	// fail-over meets a node whose system.local differs from what the proxy learnt at start-up
	Mixed bool `json:"mixed_dc_and_release,omitempty"`
}

func c18MixRun(c c18Mix) *evid.Fail {
	e, err := startEnv(envOpts{Hosts: c.Hosts, NumConns: c.Conns, Keyspaces: []string{"ks1", "ks2", "ks3", "ks4", "ks5", "ks6"}, HeartBeat: 15 * time.Millisecond, Idle: 80 * time.Millisecond,
		ReconnBase: 3 * time.Millisecond, ReconnMax: 15 * time.Millisecond, ConnectTimeout: 300 * time.Millisecond, MaxVersion: primitive.ProtocolVersionDse2})
	if err != nil {
		return nil
	}
	defer e.Close()
	proxy.VerifSetRefreshWindow(e.Proxy, 10*time.Millisecond)
	e.Cluster.UnpreparedAuto = true
	if c.Mixed {
		for i := 1; i < e.Cluster.NumHosts(); i++ {
			e.Cluster.Host(i).DC = []string{"dc1", "dc2"}[i%2]
			e.Cluster.Host(i).RelVer = []string{"4.0.4", "4.0.11", "4.1.3"}[i%3]
		}
	}
	var wg sync.WaitGroup
	stop := make(chan struct{})
	chaosDone := make(chan struct{})
	for ci := 0; ci < c.Clients; ci++ {
		wg.Add(1)
		go func(ci int) {
			defer wg.Done()
			comp := ""
			if c.Comp && ci%3 == 1 {
				comp = "lz4"
			}
			v := []primitive.ProtocolVersion{4, 4, 3, 5}[ci%4]
			if ci%2 == 0 {
				// a client that pipelines its handshake: OPTIONS, STARTUP and more OPTIONS without waiting for
				// the answers, so that answers are being encoded while STARTUP is being processed
				if hc, err := e.rawClient(); err == nil {
					opt := map[string]string{"CQL_VERSION": "3.0.0"}
					if ci%4 == 0 {
						opt["COMPRESSION"] = "lz4"
					}
					for j := 0; j < 3; j++ {
						_ = hc.SendMsg(v, int16(j), &message.Options{}, false)
					}
					_ = hc.SendMsg(v, 3, &message.Startup{Options: opt}, false)
					for j := 4; j < 7; j++ {
						_ = hc.SendMsg(v, int16(j), &message.Options{}, false)
					}
					hc.WaitN(7, 2*time.Second)
					hc.Close()
				}
			}
			r, err := newRunner(e, v, comp)
			if err != nil {
				return
			}
			wait := func(s int16, from int) { r.c.WaitStream(s, from, 1, 2*time.Second) }
			// at least Ops requests, and keep going while the chaos goroutine is still active (bounded)
			for k := 0; k < c.Ops*40; k++ {
				select {
				case <-stop:
					return
				default:
				}
				if k >= c.Ops {
					select {
					case <-chaosDone:
						k = c.Ops * 40
						continue
					default:
					}
				}
				tok := fakecass.Token(900000000 + ci*100000 + k)
				s := r.nextStream()
				from := r.c.NumFrames()
				opts := &message.QueryOptions{Consistency: primitive.ConsistencyLevelOne}
				switch (ci*7 + k*3) % 11 {
				case 0:
					_ = r.c.SendMsg(v, s, &message.Query{Query: fmt.Sprintf("USE ks%d", 1+(ci+k)%6), Options: opts}, false)
					wait(s, from)
				case 1:
					_ = r.c.SendMsg(v, s, &message.Register{EventTypes: []primitive.EventType{primitive.EventTypeSchemaChange}}, false)
					wait(s, from)
				case 2:
					switch k % 3 {
					case 0:
						_ = r.c.SendMsg(v, s, &message.Query{Query: "SELECT * FROM system.peers", Options: opts}, false)
					case 1:
						_ = r.c.SendMsg(v, s, &message.Query{Query: "SELECT * FROM system.local", Options: opts}, false)
					default:
						_ = r.c.SendMsg(v, s, &message.Options{}, false)
					}
					wait(s, from)
				case 3, 4:
					text := fmt.Sprintf("SELECT * FROM t WHERE k = ? AND tag = 'stmt%d'", (ci+k)%3)
					if id, err := r.prepare(text); err == nil {
						s2 := r.nextStream()
						ex := &message.Execute{QueryId: id, Options: &message.QueryOptions{Consistency: primitive.ConsistencyLevelOne, PositionalValues: []*primitive.Value{primitive.NewValue([]byte(tok))}}}
						if v.SupportsResultMetadataId() {
							ex.ResultMetadataId = []byte{1}
						}
						from2 := r.c.NumFrames()
						_ = r.c.SendMsg(v, s2, ex, comp != "")
						wait(s2, from2)
					}
				case 5:
					_ = r.c.SendMsg(v, s, &message.Query{Query: "UPDATE t SET c = c + 1 WHERE k = '" + tok + "'", Options: opts}, comp != "")
					wait(s, from)
				case 6: // a few pipelined requests
					for j := 0; j < 5; j++ {
						_ = r.c.SendMsg(v, r.nextStream(), &message.Query{Query: "SELECT * FROM t WHERE k = '" + tok + "'", Options: opts}, false)
					}
					r.c.WaitN(from+5, 2*time.Second)
				default:
					_ = r.c.SendMsg(v, s, &message.Query{Query: "SELECT * FROM t WHERE k = '" + tok + "'", Options: opts}, comp != "")
					wait(s, from)
				}
			}
			r.c.Close()
		}(ci)
	}
	// chaos, concurrently
	wg.Add(1)
	go func() {
		defer wg.Done()
		defer close(chaosDone)
		added := 0
		for k := 0; k < c.Churn && e.Cluster.NumHosts() > 1; k++ {
			h := 1 + k%(e.Cluster.NumHosts()-1)
			ip := net.ParseIP(e.Cluster.HostIP(h))
			e.Cluster.SetMember(h, false)
			e.Cluster.Emit(&message.TopologyChangeEvent{ChangeType: primitive.TopologyChangeTypeRemovedNode, Address: &primitive.Inet{Addr: ip, Port: int32(e.Cluster.Port)}}, primitive.EventTypeTopologyChange)
			time.Sleep(14 * time.Millisecond)
			e.Cluster.SetMember(h, true)
			e.Cluster.Emit(&message.TopologyChangeEvent{ChangeType: primitive.TopologyChangeTypeNewNode, Address: &primitive.Inet{Addr: ip, Port: int32(e.Cluster.Port)}}, primitive.EventTypeTopologyChange)
			time.Sleep(14 * time.Millisecond)
		}
		for i, a := range c.Chaos {
			select {
			case <-stop:
				return
			default:
			}
			time.Sleep(time.Duration(1+a%4) * time.Millisecond)
			nh := e.Cluster.NumHosts()
			h := (a / 16) % nh
			switch a % 12 {
			case 0:
				if cs := e.Cluster.Host(h).Conns(); len(cs) > 0 {
					cs[(a/7)%len(cs)].Close()
				}
			case 1:
				for _, cn := range e.Cluster.RegisteredConns() {
					cn.Close()
				}
			case 2, 3:
				if c.Mixed && a%12 == 3 {
					// more control-connection fail-overs in the mixed-release cases: each one meets a node whose
					// system.local differs from the previous one's while clients read OPTIONS / system.local
					for _, cn := range e.Cluster.RegisteredConns() {
						cn.Close()
					}
					time.Sleep(4 * time.Millisecond)
					break
				}
				e.Cluster.Emit(c14SchemaEvent("UPDATED", "TABLE", i), primitive.EventTypeSchemaChange)
			case 4:
				if added < 2 {
					added++
					if nhost, err := e.Cluster.AddHost(true); err == nil {
						ip := net.ParseIP(e.Cluster.HostIP(nhost.Idx))
						e.Cluster.Emit(&message.TopologyChangeEvent{ChangeType: primitive.TopologyChangeTypeNewNode, Address: &primitive.Inet{Addr: ip, Port: int32(e.Cluster.Port)}}, primitive.EventTypeTopologyChange)
					}
				}
			case 5, 6:
				// a node leaves the ring while requests are being planned and sent; give the refresh window time to
				// pass so that the removal is applied while the traffic continues
				if len(e.Cluster.Members()) > 1 && h != 0 {
					e.Cluster.SetMember(h, false)
					ip := net.ParseIP(e.Cluster.HostIP(h))
					e.Cluster.Emit(&message.TopologyChangeEvent{ChangeType: primitive.TopologyChangeTypeRemovedNode, Address: &primitive.Inet{Addr: ip, Port: int32(e.Cluster.Port)}}, primitive.EventTypeTopologyChange)
					time.Sleep(15 * time.Millisecond)
				}
			case 7, 8:
				// ... and comes back
				e.Cluster.SetMember(h, true)
				ip := net.ParseIP(e.Cluster.HostIP(h))
				e.Cluster.Emit(&message.TopologyChangeEvent{ChangeType: primitive.TopologyChangeTypeNewNode, Address: &primitive.Inet{Addr: ip, Port: int32(e.Cluster.Port)}}, primitive.EventTypeTopologyChange)
				e.Cluster.Emit(&message.StatusChangeEvent{ChangeType: primitive.StatusChangeTypeUp, Address: &primitive.Inet{Addr: ip, Port: int32(e.Cluster.Port)}}, primitive.EventTypeStatusChange)
				time.Sleep(15 * time.Millisecond)
			case 9:
				host := e.Cluster.Host(h)
				host.Stop()
				time.Sleep(2 * time.Millisecond)
				_ = host.Start()
			case 10:
				for hh := 0; hh < nh; hh++ {
					go e.Cluster.Host(hh).DropConns(nil)
				}
			case 11:
				if a%24 == 11 {
					e.Cluster.Host(h).Forget()
				} else {
					e.Cluster.Host(h).DropConns(nil)
				}
			}
		}
	}()
	done := make(chan struct{})
	go func() { wg.Wait(); close(done) }()
	select {
	case <-done:
	case <-time.After(30 * time.Second):
		close(stop)
		<-done
	}
	return nil
}

// failover: the control connection fails over again and again between nodes that report different system.local facts
// (data center, release), while clients do nothing but handshakes, OPTIONS and reads of the virtual system tables -
// requests that are answered from the cluster facts the proxy keeps.
type c18Failover struct {
	Hosts     int `json:"hosts"`
	Clients   int `json:"clients"`
	Failovers int `json:"failovers"`
	GapMs     int `json:"gap_ms"`
}

func c18FailoverRun(c c18Failover) *evid.Fail {
	e, err := startEnv(envOpts{Hosts: c.Hosts, NumConns: 1, Keyspaces: []string{"ks1"}, ReconnBase: 2 * time.Millisecond, ReconnMax: 6 * time.Millisecond, ConnectTimeout: 300 * time.Millisecond, MaxVersion: primitive.ProtocolVersionDse2})
	if err != nil {
		return nil
	}
	defer e.Close()
	for i := 1; i < e.Cluster.NumHosts(); i++ {
		e.Cluster.Host(i).DC = []string{"dc1", "dc2"}[i%2]
		e.Cluster.Host(i).RelVer = []string{"4.0.4", "4.0.11", "4.1.3"}[i%3]
	}
	var wg sync.WaitGroup
	stop := make(chan struct{})
	for ci := 0; ci < c.Clients; ci++ {
		wg.Add(1)
		go func(ci int) {
			defer wg.Done()
			v := []primitive.ProtocolVersion{4, 3, 5, 4}[ci%4]
			cl, err := e.client(v, "")
			if err != nil {
				return
			}
			defer cl.Close()
			opts := &message.QueryOptions{Consistency: primitive.ConsistencyLevelOne}
			for k := 0; ; k++ {
				select {
				case <-stop:
					return
				default:
				}
				s := int16(1 + k%100)
				from := cl.NumFrames()
				switch (ci + k) % 4 {
				case 0:
					_ = cl.SendMsg(v, s, &message.Options{}, false)
				case 1:
					_ = cl.SendMsg(v, s, &message.Query{Query: "SELECT * FROM system.local", Options: opts}, false)
				case 2:
					_ = cl.SendMsg(v, s, &message.Query{Query: "SELECT release_version, data_center, cql_version FROM system.local", Options: opts}, false)
				case 3:
					_ = cl.SendMsg(v, s, &message.Query{Query: "SELECT * FROM system.peers", Options: opts}, false)
				}
				if cl.WaitStream(s, from, 1, time.Second) == nil {
					return
				}
			}
		}(ci)
	}
	for k := 0; k < c.Failovers; k++ {
		time.Sleep(time.Duration(c.GapMs) * time.Millisecond)
		for _, cn := range e.Cluster.RegisteredConns() {
			cn.Close()
		}
	}
	time.Sleep(20 * time.Millisecond)
	close(stop)
	wg.Wait()
	return nil
}

func ignoreFunctional[C any](check func(C) *evid.Fail) func(C) *evid.Fail {
	return func(c C) *evid.Fail {
		_ = check(c)
		return nil
	}
}

func TestC18(t *testing.T) {
	rec := evid.New("C18", "exploration",
		"the scenario families of C01 (request storms with scripted backend faults and simultaneous connection drops), C02 (collisions, stream recycling), C07 (USE/sessions, parallel USE), C08 (prepare/execute/forget/add host/bursts), C14 (events, registration, failover) and C16 (topology changes, healing) re-generated from the same generators and run with harness and proxy compiled with -race in one process, plus a dedicated concurrent mix (4..12 client goroutines doing USE / REGISTER / system queries / PREPARE+EXECUTE / pipelined queries, with and without compression, while a chaos goroutine drops connections, fails the control connection over, emits schema/topology/status events, adds/removes/restarts nodes); "+
			"oracle: the Go race detector (happens-before): every report whose access sites lie in cql-proxy is a violation, identified by the unordered pair of functions; 'fatal error: concurrent map' likewise; "+
			"non-trivial = a scenario in which at least two proxy goroutines were concurrently active on shared state (every generated case: >=2 clients or traffic concurrent with backend faults); distinct by case content")
	defer finish(t, rec)
	rec.SetJournalAll(true)
	rec.Assume("only races on executions that occurred are reported: the detector has no false positives but misses races on paths the scenarios never run concurrently",
		"functional oracles of the re-used families are ignored here")

	runProp(t, rec, "mix", perShard(evid.Pick(100, 2000)), func(rt *rapid.T) c18Mix {
		c := c18Mix{Hosts: rapid.SampledFrom([]int{1, 2, 2, 3, 3, 4}).Draw(rt, "hosts"), Conns: rapid.IntRange(1, 2).Draw(rt, "conns"), Clients: rapid.IntRange(4, 12).Draw(rt, "clients"),
			Ops: rapid.IntRange(5, 30).Draw(rt, "ops"), Chaos: rapid.SliceOfN(rapid.IntRange(0, 1000), 0, 40).Draw(rt, "chaos"), Comp: rapid.Bool().Draw(rt, "comp")}
		if c.Hosts > 1 && rapid.Bool().Draw(rt, "churns") {
			c.Churn = rapid.IntRange(2, 12).Draw(rt, "churn")
		}
		if c.Hosts > 1 && rapid.Bool().Draw(rt, "mixed") {
			c.Mixed = true
		}
		rec.Case("mix:"+js(c), "family:mix", fmt.Sprintf("mix-conns:%d", c.Conns), map[bool]string{true: "mix-membership-churn", false: ""}[c.Churn > 0], map[bool]string{true: "mix-mixed-dc-and-release", false: ""}[c.Mixed])
		rec.Sample(c)
		return c
	}, c18MixRun)
	runProp(t, rec, "failover", perShard(evid.Pick(60, 1200)), func(rt *rapid.T) c18Failover {
		c := c18Failover{Hosts: rapid.IntRange(2, 4).Draw(rt, "hosts"), Clients: rapid.IntRange(2, 8).Draw(rt, "clients"), Failovers: rapid.IntRange(3, 20).Draw(rt, "failovers"), GapMs: rapid.IntRange(3, 25).Draw(rt, "gap")}
		rec.Case("failover:"+js(c), "family:failover-mixed-releases")
		return c
	}, c18FailoverRun)
	runProp(t, rec, "storm", perShard(evid.Pick(40, 800)), func(rt *rapid.T) stormCase {
		c := c01Gen(rt)
		rec.Case("storm:"+stormKey(&c), "family:C01-storm")
		return c
	}, ignoreFunctional(c01Check(rec)))
	runProp(t, rec, "collide", perShard(evid.Pick(20, 400)), func(rt *rapid.T) stormCase {
		c := c02Gen(rt)
		rec.Case("collide:"+stormKey(&c), "family:C02-collisions")
		return c
	}, ignoreFunctional(func(c stormCase) *evid.Fail { _, f := runStorm(&c, rec); return f }))
	runProp(t, rec, "sessions", perShard(evid.Pick(40, 800)), func(rt *rapid.T) c07Case {
		c := c07Gen(rt)
		rec.Case("sessions:"+js(c), "family:C07-sessions")
		return c
	}, ignoreFunctional(c07Check))
	runProp(t, rec, "prepared", perShard(evid.Pick(30, 600)), func(rt *rapid.T) c08Case {
		c := c08Gen(rt, false)
		rec.Case("prepared:"+js(c), "family:C08-prepared")
		return c
	}, ignoreFunctional(c08Check))
	runProp(t, rec, "events", perShard(evid.Pick(30, 600)), func(rt *rapid.T) c14Case {
		c := c14Gen(rt)
		rec.Case("events:"+js(c), "family:C14-events")
		return c
	}, ignoreFunctional(c14Check))
	runProp(t, rec, "topology", perShard(evid.Pick(12, 240)), func(rt *rapid.T) c16Case {
		c := c16Gen(rt)
		rec.Case("topology:"+js(c), "family:C16-healing")
		return c
	}, ignoreFunctional(c16Check))
}
