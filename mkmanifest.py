#!/usr/bin/env python3
"""Regenerates MANIFEST.json from the table below (keeps it valid by construction)."""
import json, os, subprocess

ROOT = os.path.dirname(os.path.abspath(__file__))

# id -> (level category, technique, level text, level note, design ref)
CLAIMED = {
    "C15": ("exploration",
            "exhaustive enumeration of bounded event histories + rapid state-machine histories + concurrent generated schedules, against a set/rotation reference model",
            "Every event history over 4 hosts up to length 4 (quick) / 5 hosts up to length 5 (thorough) is enumerated with plans created, held and drained after every prefix; longer random histories, the 2^32/2^64 counter boundaries (hook) and a concurrent variant are searched with rapid. A pure in-memory API, so exhaustive-to-a-bound plus random search is the natural level.",
            "Trusts the set-based membership model; AddEvent of an already-present host is outside the domain; concurrent variant samples schedules, does not enumerate them.",
            "DESIGN.md §2.15"),
}

NOT_APPLICABLE = {}

ALL = ["C%02d" % i for i in range(1, 21)]


def main():
    hooks_commits = []
    try:
        out = subprocess.run(["git", "-C", "/repo", "log", "--format=%h %s"], capture_output=True, text=True).stdout
        for line in out.splitlines():
            h, _, subj = line.partition(" ")
            if subj.startswith("verif hook"):
                hooks_commits.append(h)
    except Exception:
        pass
    checks = []
    for pid in ALL:
        if pid not in CLAIMED:
            continue
        cat, tech, text, note, ref = CLAIMED[pid]
        checks.append({
            "property_id": pid,
            "quick_cmd": "./run %s quick" % pid,
            "thorough_cmd": "./run %s thorough" % pid,
            "evidence_file": "/verif/evidence/%s.json" % pid,
            "replay_cmd_template": "./run %s replay {path}" % pid,
            "engine": "harness",
            "level_claimed": {"category": cat, "text": text, "design_ref": ref},
            "level_note": note,
            "technique": tech,
        })
    na = [{"property_id": p, "reason": NOT_APPLICABLE.get(p, "check not built yet (work in progress); nothing is claimed for it")}
          for p in ALL if p not in CLAIMED]
    m = {
        "version": 1,
        "setup_cmd": "./run build",
        "hooks": {
            "guard": "verif",
            "enable": "go build tag: the harness compiles /repo through a replace directive with `go test -c -tags verif`",
            "baseline_off_cmd": "cd /repo && GOPROXY=off go test -json -vet=off -count=1 -timeout 25m ./...",
            "source_commits": hooks_commits,
            "add_only": True,
        },
        "engines": [{
            "name": "harness",
            "path": "/verif/harness",
            "serves_properties": [c["property_id"] for c in checks],
            "kind_free_text": "Go module (rapid v1.3.0 property-based tests, native go fuzz targets in the thorough tier) compiled against /repo's working tree; driver /verif/run shards, merges evidence, maps outcomes to exit codes",
        }],
        "checks": checks,
        "not_applicable": na,
        "notes": "Every check is generated-input search (rapid / exhaustive enumeration of small finite domains / native fuzzing) against an explicit oracle; see DESIGN.md. Exit 2 = inconclusive (never a violation).",
    }
    json.dump(m, open(os.path.join(ROOT, "MANIFEST.json"), "w"), indent=1)
    print("MANIFEST.json: %d checks, %d not_applicable" % (len(checks), len(na)))


if __name__ == "__main__":
    main()
