package checks

import (
	"fmt"
	"net"
	"reflect"
	"strings"
	"testing"
	"time"

	"github.com/datastax/go-cassandra-native-protocol/message"
	"github.com/datastax/go-cassandra-native-protocol/primitive"
	"pgregory.net/rapid"

	"verif/harness/evid"
	"verif/harness/protogen"
	"verif/harness/rawcli"
)

// ---- C14: schema-change events reach every registered client exactly once, and only those ----

type c14Action struct {
	Op     string   `json:"op"` // register | disconnect | connect | emit | failover | stuck | burst_stalled | burst_resumed
	Client int      `json:"client"`
	Events []string `json:"events,omitempty"` // register: event types
	Kind   string   `json:"kind,omitempty"`   // emit: schema | topology | status
	Change string   `json:"change,omitempty"` // CREATED | UPDATED | DROPPED
	Target string   `json:"target,omitempty"` // KEYSPACE | TABLE | TYPE | FUNCTION | AGGREGATE
	N      int      `json:"n,omitempty"`      // stuck: events emitted while the client's connection is dead but not yet noticed
}

type c14Case struct {
	Hosts      int         `json:"hosts"`
	LowVersion []int       `json:"low_version_hosts,omitempty"` // hosts that only speak v3 (the control connection negotiated v4)
	Clients    []c07Client `json:"clients"`
	Actions    []c14Action `json:"actions"`
}

func c14SchemaEvent(change, target string, n int) *message.SchemaChangeEvent {
	ev := &message.SchemaChangeEvent{ChangeType: primitive.SchemaChangeType(change), Target: primitive.SchemaChangeTarget(target), Keyspace: fmt.Sprintf("ks_%d", n)}
	switch target {
	case "TABLE", "TYPE":
		ev.Object = fmt.Sprintf("obj_%d", n)
	case "FUNCTION", "AGGREGATE":
		ev.Object = fmt.Sprintf("fn_%d", n)
		ev.Arguments = []string{"int", "text"}[:n%3]
		if ev.Arguments == nil {
			ev.Arguments = []string{}
		}
	}
	return ev
}

func c14Check(c c14Case) *evid.Fail {
	e, err := startEnv(envOpts{Hosts: c.Hosts, NumConns: 1, Version: primitive.ProtocolVersion4, MaxVersion: primitive.ProtocolVersionDse2, Keyspaces: []string{"ks1", "ks2", "ks3", "ks4", "ks5", "ks6"}})
	if err != nil {
		return evid.Failf("harness-env", "%v", err)
	}
	defer e.Close()
	for _, h := range c.LowVersion {
		if h > 0 && h < c.Hosts { // never the contact point
			e.Cluster.Host(h).MaxVer = primitive.ProtocolVersion3
		}
	}
	type cstate struct {
		cl         *rawcli.Client
		v          primitive.ProtocolVersion
		connected  bool
		registered bool
		seen       int // frames already accounted for
	}
	cs := make([]*cstate, len(c.Clients)+1)
	connect := func(i int) *evid.Fail {
		cc := c07Client{Version: 4}
		if i < len(c.Clients) {
			cc = c.Clients[i]
		}
		cl, err := e.client(primitive.ProtocolVersion(cc.Version), cc.Comp)
		if err != nil {
			return evid.Failf("harness-client", "%v", err)
		}
		cs[i] = &cstate{cl: cl, v: primitive.ProtocolVersion(cc.Version), connected: true, seen: cl.NumFrames()}
		return nil
	}
	for i := range cs {
		if f := connect(i); f != nil {
			return f
		}
	}
	// the witness (last client) is always registered: it tells us when an event has been fanned out
	w := cs[len(cs)-1]
	register := func(st *cstate, types []primitive.EventType) *evid.Fail {
		s := int16(500 + st.cl.NumFrames()%1000)
		from := st.cl.NumFrames()
		if err := st.cl.SendMsg(st.v, s, &message.Register{EventTypes: types}, false); err != nil {
			return nil // not encodable (no event type): not a well-formed REGISTER
		}
		rp := st.cl.WaitStream(s, from, 1, posWait)
		if rp == nil || primitive.OpCode(rp.F.Op) != primitive.OpCodeReady {
			return evid.Failf("register-reply", "REGISTER %v not answered with READY", types)
		}
		for _, t := range types {
			if t == primitive.EventTypeSchemaChange {
				st.registered = true
			}
		}
		return nil
	}
	if f := register(w, []primitive.EventType{primitive.EventTypeSchemaChange}); f != nil {
		return f
	}
	w.seen = w.cl.NumFrames()
	evN := 0
	controlUp := func() bool { return len(e.Cluster.RegisteredConns()) > 0 }
	// newEvents returns the EVENT frames a client received since the last call; any other new frame is a violation
	newEvents := func(i int, st *cstate) ([]*message.SchemaChangeEvent, *evid.Fail) {
		var out []*message.SchemaChangeEvent
		frames := st.cl.Frames()
		for _, fr := range frames[st.seen:] {
			if fr.F.Stream >= 30000 {
				continue // fence replies
			}
			if primitive.OpCode(fr.F.Op) != primitive.OpCodeEvent || fr.F.Stream != -1 {
				return nil, evid.Failf("unexpected-frame", "client %d received opcode %d on stream %d", i, fr.F.Op, fr.F.Stream)
			}
			b, err := st.cl.Decode(fr)
			if err != nil {
				return nil, evid.Failf("event-undecodable", "client %d: EVENT frame cannot be decoded: %v", i, err)
			}
			sce, ok := b.Message.(*message.SchemaChangeEvent)
			if !ok {
				return nil, evid.Failf("non-schema-event-forwarded", "client %d received %v", i, b.Message)
			}
			out = append(out, sce)
		}
		st.seen = len(frames)
		return out, nil
	}
	// emitAndCheck emits events (schema events must reach exactly the registered, connected clients)
	emitAndCheck := func(evs []message.Message, kinds []primitive.EventType, where string, skip map[int]bool) *evid.Fail {
		if !controlUp() {
			return nil // "on the control connection": nothing is owed while there is none
		}
		var want []*message.SchemaChangeEvent
		for i, ev := range evs {
			if e.Cluster.Emit(ev, kinds[i]) == 0 {
				return nil
			}
			if sce, ok := ev.(*message.SchemaChangeEvent); ok {
				want = append(want, sce)
			}
		}
		// marker: a schema event that follows; events are handled in order by one goroutine
		evN++
		marker := c14SchemaEvent("CREATED", "KEYSPACE", 900000+evN)
		if e.Cluster.Emit(marker, primitive.EventTypeSchemaChange) == 0 {
			return nil
		}
		want = append(want, marker)
		stallReset()
		deadline := time.Now().Add(posWait)
		got := 0
		for {
			got = 0
			for _, fr := range w.cl.Frames()[w.seen:] {
				if primitive.OpCode(fr.F.Op) == primitive.OpCodeEvent {
					got++
				}
			}
			if got >= len(want) {
				break
			}
			if time.Now().After(deadline) {
				if stalled(posWait) {
					return evid.Failf("harness-stall", "stalled")
				}
				if !controlUp() {
					return nil
				}
				return evid.Failf("event-lost:witness", "%s: a registered client received %d of %d schema events within %v", where, got, len(want), posWait)
			}
			time.Sleep(300 * time.Microsecond)
		}
		for i, st := range cs {
			if skip[i] || !st.connected {
				continue
			}
			if st.registered {
				// the fan-out to the clients runs on the proxy's cluster goroutine, unordered with respect to the witness
				// and to this client's own requests: wait for this client's copy of the marker (it is owed one)
				for {
					n := 0
					for _, fr := range st.cl.Frames()[st.seen:] {
						if primitive.OpCode(fr.F.Op) == primitive.OpCodeEvent {
							n++
						}
					}
					if n >= len(want) || st.cl.PeerClosed() || time.Now().After(deadline) {
						break
					}
					time.Sleep(300 * time.Microsecond)
				}
				if stalled(posWait) {
					return evid.Failf("harness-stall", "stalled")
				}
			}
			if _, err := st.cl.Fence(st.v, posWait); err != nil {
				return evid.Failf("fence-failed", "%s: client %d: %v", where, i, err)
			}
			got, f := newEvents(i, st)
			if f != nil {
				f.Msg = where + ": " + f.Msg
				return f
			}
			if !st.registered {
				if len(got) > 0 {
					return evid.Failf("event-to-unregistered", "%s: client %d never registered for SCHEMA_CHANGE but received %v", where, i, got[0])
				}
				continue
			}
			if len(got) != len(want) {
				sig := "event-lost"
				if len(got) > len(want) {
					sig = "event-duplicated"
				}
				return evid.Failf(sig, "%s: client %d (registered) received %d schema events, %d were emitted: got %v want %v", where, i, len(got), len(want), got, want)
			}
			for k := range want {
				if !reflect.DeepEqual(got[k], want[k]) {
					return evid.Failf("event-content", "%s: client %d received %v, the backend emitted %v", where, i, got[k], want[k])
				}
			}
		}
		return nil
	}
	ip := net.ParseIP(e.Cluster.HostIP(0))
	for ai, a := range c.Actions {
		ci := a.Client % len(c.Clients)
		st := cs[ci]
		where := fmt.Sprintf("action %d %s", ai, a.Op)
		switch a.Op {
		case "register":
			if !st.connected {
				continue
			}
			var types []primitive.EventType
			for _, x := range a.Events {
				types = append(types, primitive.EventType(x))
			}
			if f := register(st, types); f != nil {
				return f
			}
			st.seen = st.cl.NumFrames()
		case "disconnect":
			if st.connected {
				st.cl.Close()
				st.connected, st.registered = false, false
			}
		case "connect":
			if !st.connected {
				if f := connect(ci); f != nil {
					return f
				}
			}
		case "emit":
			evN++
			var ev message.Message
			var kind primitive.EventType
			switch a.Kind {
			case "topology":
				ev, kind = &message.TopologyChangeEvent{ChangeType: primitive.TopologyChangeTypeNewNode, Address: &primitive.Inet{Addr: ip, Port: int32(e.Cluster.Port)}}, primitive.EventTypeTopologyChange
			case "status":
				ev, kind = &message.StatusChangeEvent{ChangeType: primitive.StatusChangeTypeUp, Address: &primitive.Inet{Addr: ip, Port: int32(e.Cluster.Port)}}, primitive.EventTypeStatusChange
			default:
				ev, kind = c14SchemaEvent(a.Change, a.Target, evN), primitive.EventTypeSchemaChange
			}
			if f := emitAndCheck([]message.Message{ev}, []primitive.EventType{kind}, where, nil); f != nil {
				return f
			}
		case "failover":
			regs := e.Cluster.RegisteredConns()
			for _, cn := range regs {
				cn.Close()
			}
			deadline := time.Now().Add(posWait)
			for !controlUp() {
				if time.Now().After(deadline) {
					return evid.Failf("no-control-failover", "%s: no control connection %v after the previous one was dropped", where, posWait)
				}
				time.Sleep(time.Millisecond)
			}
			time.Sleep(5 * time.Millisecond) // lets the handshake finish; an event emitted too early is simply not owed
			// re-synchronise what every client has seen (events in flight during the failover are not owed)
			for _, s2 := range cs {
				if s2.connected {
					_, _ = s2.cl.Fence(s2.v, posWait)
					s2.seen = s2.cl.NumFrames()
				}
			}
		case "burst_resumed":
			// a registered client stops reading for a moment while the backend emits a long burst of big events, then reads
			// on: it stays connected and registered, so it is owed the whole burst like everybody else
			if !st.connected || !st.registered || !controlUp() {
				continue
			}
			st.cl.PauseReads()
			var evs []message.Message
			var kinds []primitive.EventType
			for k := 0; k < a.N; k++ {
				evN++
				evs = append(evs, &message.SchemaChangeEvent{ChangeType: primitive.SchemaChangeTypeUpdated, Target: primitive.SchemaChangeTargetTable, Keyspace: fmt.Sprintf("ks_%d", evN), Object: strings.Repeat("o", 4000)})
				kinds = append(kinds, primitive.EventTypeSchemaChange)
			}
			stalled := st.cl
			go func() {
				time.Sleep(150 * time.Millisecond)
				stalled.ResumeReads()
			}()
			if f := emitAndCheck(evs, kinds, where, map[int]bool{}); f != nil {
				f.Sig = "burst-resumed:" + f.Sig
				return f
			}
		case "burst_stalled":
			// a registered client stops reading while the backend emits a long burst of big events; it is closed a
			// moment later. Every other registered client is owed the whole burst, in order (the proxy may make them
			// wait for the stalled client, but it may not drop anything).
			if !st.connected || !st.registered || !controlUp() {
				continue
			}
			st.cl.PauseReads()
			var evs []message.Message
			var kinds []primitive.EventType
			for k := 0; k < a.N; k++ {
				evN++
				evs = append(evs, &message.SchemaChangeEvent{ChangeType: primitive.SchemaChangeTypeUpdated, Target: primitive.SchemaChangeTargetTable, Keyspace: fmt.Sprintf("ks_%d", evN), Object: strings.Repeat("o", 4000)})
				kinds = append(kinds, primitive.EventTypeSchemaChange)
			}
			stalled := st.cl
			go func() {
				time.Sleep(150 * time.Millisecond)
				stalled.Close()
				stalled.ResumeReads()
			}()
			st.connected, st.registered = false, false
			if f := emitAndCheck(evs, kinds, where, map[int]bool{ci: true}); f != nil {
				f.Sig = "burst:" + f.Sig
				return f
			}
		case "stuck":
			// the client's connection dies while the proxy-side reader of that client is busy creating a
			// backend session; events emitted in that window must still reach everybody else
			if !st.connected || !controlUp() {
				continue
			}
			e.Cluster.SetHoldStartup(true)
			evN++
			_ = st.cl.SendMsg(st.v, 7, &message.Query{Query: fmt.Sprintf("USE ks%d", 1+evN%6), Options: &message.QueryOptions{Consistency: primitive.ConsistencyLevelOne}}, false)
			deadline := time.Now().Add(time.Second)
			for e.Cluster.HeldStartups() == 0 && time.Now().Before(deadline) {
				time.Sleep(300 * time.Microsecond)
			}
			st.cl.Close()
			st.connected, st.registered = false, false
			var evs []message.Message
			var kinds []primitive.EventType
			for k := 0; k < a.N; k++ {
				evN++
				evs = append(evs, c14SchemaEvent("UPDATED", "TABLE", evN))
				kinds = append(kinds, primitive.EventTypeSchemaChange)
			}
			var f *evid.Fail
			for k := range evs {
				// one by one: the first write to the dead client still succeeds, later ones fail
				if f = emitAndCheck(evs[k:k+1], kinds[k:k+1], where, map[int]bool{ci: true}); f != nil {
					break
				}
			}
			e.Cluster.ReleaseStartups()
			if f != nil {
				f.Sig = "stuck:" + f.Sig
				return f
			}
		}
	}
	// end of the history: nothing may trickle in late (a duplicate, or an event for a client that never registered)
	for i, st := range cs {
		if !st.connected || st.cl.PeerClosed() {
			continue
		}
		if _, err := st.cl.Fence(st.v, posWait); err != nil {
			continue
		}
		st.cl.Quiesce(4*time.Millisecond, 60*time.Millisecond)
		got, f := newEvents(i, st)
		if f != nil {
			f.Msg = "end of history: " + f.Msg
			return f
		}
		if len(got) > 0 {
			sig := "event-duplicated"
			if !st.registered {
				sig = "event-to-unregistered"
			}
			return evid.Failf(sig, "end of history: client %d (registered=%v) received %d more schema events than were owed: %v", i, st.registered, len(got), got[0])
		}
	}
	return nil
}

func c14Gen(rt *rapid.T) c14Case {
	c := c14Case{Hosts: rapid.IntRange(1, 3).Draw(rt, "hosts")}
	if c.Hosts == 3 && rapid.IntRange(0, 2).Draw(rt, "lowversion") == 0 {
		c.LowVersion = []int{1}
	}
	nc := rapid.IntRange(1, 5).Draw(rt, "nclients")
	for i := 0; i < nc; i++ {
		v := rapid.SampledFrom([]int{3, 4, 4, 4, 5, 66}).Draw(rt, "version")
		comps := []string{"", "", "lz4", "snappy"}
		if v == 5 {
			comps = []string{"", "lz4"}
		}
		c.Clients = append(c.Clients, c07Client{Version: v, Comp: comps[rapid.IntRange(0, len(comps)-1).Draw(rt, "comp")]})
	}
	n := rapid.IntRange(3, 30).Draw(rt, "nactions")
	for i := 0; i < n; i++ {
		a := c14Action{Client: rapid.IntRange(0, nc-1).Draw(rt, "client")}
		switch k := rapid.IntRange(0, 19).Draw(rt, "action"); {
		case k < 6:
			a.Op = "register"
			for _, ev := range []string{"SCHEMA_CHANGE", "TOPOLOGY_CHANGE", "STATUS_CHANGE"} {
				if rapid.Bool().Draw(rt, "ev") {
					a.Events = append(a.Events, ev)
				}
			}
		case k < 8:
			a.Op = "disconnect"
		case k < 10:
			a.Op = "connect"
		case k < 16:
			a.Op = "emit"
			a.Kind = rapid.SampledFrom([]string{"schema", "schema", "schema", "topology", "status"}).Draw(rt, "kind")
			a.Change = rapid.SampledFrom([]string{"CREATED", "UPDATED", "DROPPED"}).Draw(rt, "change")
			a.Target = rapid.SampledFrom([]string{"KEYSPACE", "TABLE", "TYPE", "FUNCTION", "AGGREGATE"}).Draw(rt, "target")
		case k < 18:
			a.Op = "failover"
		default:
			a.Op, a.N = "stuck", rapid.IntRange(2, 5).Draw(rt, "stuckevents")
			if rapid.IntRange(0, 7).Draw(rt, "burst") == 0 {
				a.Op, a.N = "burst_stalled", rapid.IntRange(2200, 3200).Draw(rt, "burstevents")
				if rapid.Bool().Draw(rt, "resumes") {
					a.Op = "burst_resumed"
				}
			}
		}
		c.Actions = append(c.Actions, a)
	}
	return c
}

func TestC14(t *testing.T) {
	rec := evid.New("C14", "exploration",
		"histories over 1..5 clients (v3,v4,v5,DSEv2; none/lz4/snappy) plus an always-registered witness: REGISTER for any subset of event types (repeated), disconnect/reconnect, backend events of all three kinds and all schema targets/change types emitted on every backend connection that registered for them, control-connection failover (optionally past a host that only speaks a lower version), and clients whose connection dies while their proxy-side reader is busy; "+
			"oracle: model = set of connected clients that registered for SCHEMA_CHANGE; after each emit (ordered marker event + OPTIONS fence) each of them has exactly one new EVENT frame on stream -1 equal to the emitted event, all others none; topology/status events reach nobody; "+
			"non-trivial = an emit with >=1 registered and >=1 unregistered client connected, or after a disconnect/failover; distinct by case content")
	defer finish(t, rec)
	rec.SetJournalAll(true)
	rec.Assume("events emitted while no control connection exists are not owed; the version byte of EVENT frames is not asserted")
	runProp(t, rec, "history", perShard(evid.Pick(1000, 60000)), func(rt *rapid.T) c14Case {
		c := c14Gen(rt)
		var labels []string
		reg := map[int]bool{}
		conn := map[int]bool{}
		for i := range c.Clients {
			conn[i] = true
		}
		nontrivial, disturbed := false, false
		for _, a := range c.Actions {
			ci := a.Client % len(c.Clients)
			labels = append(labels, "op:"+a.Op)
			switch a.Op {
			case "register":
				for _, ev := range a.Events {
					if ev == "SCHEMA_CHANGE" && conn[ci] {
						reg[ci] = true
					}
				}
			case "burst_resumed":
				if conn[ci] && reg[ci] {
					disturbed = true
				}
			case "burst_stalled":
				if conn[ci] && reg[ci] {
					conn[ci], reg[ci] = false, false
					disturbed = true
				}
			case "disconnect", "stuck":
				conn[ci], reg[ci] = false, false
				disturbed = true
			case "connect":
				conn[ci] = true
			case "failover":
				disturbed = true
			case "emit":
				labels = append(labels, "emit:"+a.Kind)
				if a.Kind == "schema" {
					labels = append(labels, "target:"+a.Target)
				}
				nreg, nun := 0, 0
				for i := range c.Clients {
					if conn[i] && reg[i] {
						nreg++
					} else if conn[i] {
						nun++
					}
				}
				if nreg >= 1 && nun >= 1 || disturbed {
					nontrivial = true
				}
			}
		}
		for _, cl := range c.Clients {
			labels = append(labels, "client:"+protogen.VersionName(primitive.ProtocolVersion(cl.Version)))
		}
		key := ""
		if nontrivial {
			key = js(c)
		}
		rec.Case(key, labels...)
		if len(c.Actions) <= 6 {
			rec.Sample(c)
		}
		return c
	}, c14Check)
}
